package govc

import (
	"fmt"
	"go/token"
	"go/types"
	"math/big"
	"sort"
	"strings"

	"golang.org/x/tools/go/ssa"
)

func newBig(s string) (*big.Int, bool) { return new(big.Int).SetString(s, 10) }

// Obligation is one proof obligation generated from a function under contract.
type Obligation struct {
	Name   string
	Kind   string // post, pre, inv.entry, inv.preserve, decreases, frame, nil, bounds, div, typeassert, panic, assert, arith, mapnil, smoke
	Func   string
	Text   string
	Tags   []string
	Pos    string
	NHyps  int // number of hypotheses of the VC visible to this obligation
	PC     *Term
	Goal   *Term
	Safety bool
	// filled by the checker
	Result SolverResult
	Status string // discharged, failed, known
}

// VC generates the verification conditions of one function.
type VC struct {
	E        *Engine
	P        *TermPool
	Fn       *ssa.Function
	C        *Contract
	Key      string
	hyps     []*Term
	obls     []*Obligation
	notes    []string
	unsounds []string
	heap0    map[string]*Term
	heapSort map[string]Sort
	written  map[string]bool // heap maps stored to (syntactically reached) in this run
	typed    map[*Term]bool
	subSeen  map[*Term]bool
	entry    *State // state at function entry (for old())
	params   map[string]Val
	safety   bool // generate safety obligations
	arith    bool
	cellSeq  int
	counters map[string]int
	inlineStack []*ssa.Function
	stats    struct{ instrs, inlined, calls int }
	allocTypes map[string]bool // struct type keys allocated by this function (incl. inlined callees)
	resultVals []Val
	ranges     map[*ssa.Range]*rangeInfo
	usedContracts map[string]bool
	specErrs   []string
	qSeq       int
	epochSeq   int
	refAx      map[string]bool
	activeBound []*Term
	curLoopA    *Term
	pendingTyping []pendingType
	pendingRoles  []string
	cbinvs        []string // callback invariants assumed after higher-order calls (reported as assumptions)
	closureVars   map[string]EV // captured variables of a closure under contract, by name (entry values)
}

func (vc *VC) note(format string, a ...any) {
	s := fmt.Sprintf(format, a...)
	for _, n := range vc.notes {
		if n == s {
			return
		}
	}
	vc.notes = append(vc.notes, s)
}

// unsound records a modelling gap that could hide a violation; obligations of this function are then
// reported as not proved ("subset.<func>").
func (vc *VC) unsound(s string) {
	for _, n := range vc.unsounds {
		if n == s {
			return
		}
	}
	vc.unsounds = append(vc.unsounds, s)
}

func (vc *VC) assume(st *State, t *Term) {
	t = vc.P.Polarize(t, -1)
	t = vc.P.Implies(st.pc, t)
	if t.IsTrue() {
		return
	}
	vc.hyps = append(vc.hyps, vc.closeBound(t))
}

func (vc *VC) assumeGlobal(t *Term) {
	t = vc.P.Polarize(t, -1)
	if t.IsTrue() {
		return
	}
	vc.hyps = append(vc.hyps, vc.closeBound(t))
}

// closeBound universally closes a fact over the quantifier variables that are active while a contract
// expression is being evaluated (facts produced inside a quantifier body are instances of axioms that
// hold for every value of the bound variable).
func (vc *VC) closeBound(t *Term) *Term {
	if len(vc.activeBound) == 0 {
		return t
	}
	var used []*Term
	for _, v := range vc.activeBound {
		if containsVar(t, []*Term{v}) {
			used = append(used, v)
		}
	}
	if len(used) == 0 {
		return t
	}
	return vc.P.Forall(used, t)
}

func (vc *VC) counter(k string) int {
	n := vc.counters[k]
	vc.counters[k] = n + 1
	return n
}

func (vc *VC) pos(p token.Pos) string {
	if !p.IsValid() {
		return ""
	}
	pp := vc.E.Prog.Fset.Position(p)
	f := pp.Filename
	f = strings.TrimPrefix(f, vc.E.RepoDir+"/")
	return fmt.Sprintf("%s:%d", f, pp.Line)
}

// oblige records an obligation pc => goal under the hypotheses collected so far.
func (vc *VC) oblige(st *State, kind, label, text string, goal *Term, tags []string, pos token.Pos, safety bool) *Obligation {
	if goal.IsTrue() || st.pc.IsFalse() {
		// trivially discharged by the simplifier; still counted
	}
	base := vc.Key + "#" + kind
	if label != "" {
		base += "." + label
	}
	name := base
	if n := vc.counter(base); n > 0 {
		name = fmt.Sprintf("%s~%d", base, n)
	}
	goal = vc.P.Polarize(goal, +1)
	o := &Obligation{Name: name, Kind: kind, Func: vc.Key, Text: text, Tags: tags, Pos: vc.pos(pos), NHyps: len(vc.hyps), PC: st.pc, Goal: goal, Safety: safety}
	vc.obls = append(vc.obls, o)
	return o
}

// check emits a safety obligation (when enabled) and then assumes the condition.
func (vc *VC) check(st *State, kind, label, text string, cond *Term, pos token.Pos) {
	if vc.safety {
		vc.oblige(st, kind, label, text, cond, nil, pos, true)
	}
	vc.assume(st, cond)
}

// Engine holds the loaded program and the specification database.
type Engine struct {
	Prog     *ssa.Program
	Pkgs     map[string]*ssa.Package
	DB       *SpecDB
	RepoDir  string
	RepoMod  string
	kinds    map[string]int
	tags     map[string]int
	funcs    map[string]*ssa.Function // by key
	ifaces   map[string]*types.Named
	stableGlobals map[*ssa.Global]bool
	globalsScanned bool
	sentinels map[*ssa.Global]int
	LoadSecs float64
	strLits  map[string]int
	mathAssumed bool
	u256     types.Type
	modKeyCache map[*Contract][]string
}

func (e *Engine) kindID(k string) int {
	if id, ok := e.kinds[k]; ok {
		return id
	}
	id := len(e.kinds) + 1
	e.kinds[k] = id
	return id
}

// typeTag is the integer tag of a dynamic type.
func (e *Engine) typeTag(t types.Type) int {
	k := types.TypeString(t, nil)
	if id, ok := e.tags[k]; ok {
		return id
	}
	id := len(e.tags) + 1
	e.tags[k] = id
	return id
}

func (e *Engine) inRepo(pkg *types.Package) bool {
	return pkg != nil && (pkg.Path() == e.RepoMod || strings.HasPrefix(pkg.Path(), e.RepoMod+"/"))
}

// FuncKey is the canonical contract key of a function.
func FuncKey(fn *ssa.Function) string {
	if o := fn.Origin(); o != nil {
		fn = o
	}
	if fn.Parent() != nil {
		n := fn.Name()
		if i := strings.LastIndex(n, "$"); i >= 0 {
			n = n[i+1:]
		}
		return FuncKey(fn.Parent()) + "$" + n
	}
	obj, _ := fn.Object().(*types.Func)
	if obj == nil {
		if fn.Pkg != nil {
			return fn.Pkg.Pkg.Path() + "." + fn.Name()
		}
		return fn.String()
	}
	return funcObjKey(obj)
}

func funcObjKey(obj *types.Func) string {
	obj = obj.Origin()
	pkg := ""
	if obj.Pkg() != nil {
		pkg = obj.Pkg().Path()
	}
	sig := obj.Type().(*types.Signature)
	if r := sig.Recv(); r != nil {
		t := r.Type()
		ptr := false
		if p, ok := t.(*types.Pointer); ok {
			t = p.Elem()
			ptr = true
		}
		name := "?"
		switch n := t.(type) {
		case *types.Named:
			name = n.Origin().Obj().Name()
		case *types.Alias:
			if nn, ok := types.Unalias(n).(*types.Named); ok {
				name = nn.Origin().Obj().Name()
			}
		}
		if ptr {
			return pkg + ".(*" + name + ")." + obj.Name()
		}
		return pkg + ".(" + name + ")." + obj.Name()
	}
	return pkg + "." + obj.Name()
}

// loops

type loopInfo struct {
	head    *ssa.BasicBlock
	body    map[*ssa.BasicBlock]bool
	ordinal int
	backs   []*ssa.BasicBlock // sources of back edges
	locs    []loc             // evaluated modifies clause of the loop (precise frame), at loop entry
	precise bool
	modClauses []*Clause
	headLocs   []loc // the same clause evaluated in the loop-head state of an arbitrary iteration
	aEntry     *Term
}

func findLoops(fn *ssa.Function) map[*ssa.BasicBlock]*loopInfo {
	loops := map[*ssa.BasicBlock]*loopInfo{}
	for _, b := range fn.Blocks {
		for _, s := range b.Succs {
			if s.Dominates(b) {
				li := loops[s]
				if li == nil {
					li = &loopInfo{head: s, body: map[*ssa.BasicBlock]bool{s: true}}
					loops[s] = li
				}
				li.backs = append(li.backs, b)
				// natural loop: nodes that reach b without passing through s
				var stack []*ssa.BasicBlock
				if !li.body[b] {
					li.body[b] = true
					stack = append(stack, b)
				}
				for len(stack) > 0 {
					x := stack[len(stack)-1]
					stack = stack[:len(stack)-1]
					for _, pr := range x.Preds {
						if !li.body[pr] {
							li.body[pr] = true
							stack = append(stack, pr)
						}
					}
				}
			}
		}
	}
	var heads []*ssa.BasicBlock
	for h := range loops {
		heads = append(heads, h)
	}
	// ordinal: by source position of the head block's first instruction with a position, falling back to index
	sort.Slice(heads, func(i, j int) bool { return heads[i].Index < heads[j].Index })
	for i, h := range heads {
		loops[h].ordinal = i
	}
	return loops
}

// topoOrder orders blocks so that every forward predecessor precedes its successors.
func topoOrder(fn *ssa.Function) []*ssa.BasicBlock {
	seen := map[*ssa.BasicBlock]bool{}
	var post []*ssa.BasicBlock
	var dfs func(b *ssa.BasicBlock)
	dfs = func(b *ssa.BasicBlock) {
		seen[b] = true
		for _, s := range b.Succs {
			if s.Dominates(b) { // back edge
				continue
			}
			if !seen[s] {
				dfs(s)
			}
		}
		post = append(post, b)
	}
	if len(fn.Blocks) > 0 {
		dfs(fn.Blocks[0])
	}
	for i, j := 0, len(post)-1; i < j; i, j = i+1, j-1 {
		post[i], post[j] = post[j], post[i]
	}
	return post
}
