package govc

import (
	"fmt"
	"go/constant"
	"go/token"
	"go/types"
	"math/big"
	"strings"

	"golang.org/x/tools/go/ssa"
)

type frame struct {
	fn       *ssa.Function
	vals     map[ssa.Value]Val
	id       int
	freeVars []Val
	depth    int
	loops    map[*ssa.BasicBlock]*loopInfo
	contract *Contract
	prefix   string
	params   map[string]Val // entry values of parameters (for contract expressions)
	top      bool
	entry    *State // state at entry of an inlined callee (old() in its loop invariants)
	anchors  map[ssa.Instruction]string
	fvRoles  []string // role (field name) of each free variable of a bound-method closure
}

type inEdge struct {
	st   *State
	from *ssa.BasicBlock
}

type retPoint struct {
	st  *State
	res []Val
}

const maxInlineDepth = 6

// execFunction symbolically executes fn from state st and returns the merged exit state and results.
// A nil exit state means no return is reachable.
func (vc *VC) execFunction(fn *ssa.Function, args []Val, freeVars []Val, st *State, depth int, prefix string) (*State, []Val, *frame) {
	if o := fn.Origin(); o != nil && len(fn.Blocks) == 0 {
		fn = o
	}
	vc.cellSeq++
	fr := &frame{fn: fn, vals: map[ssa.Value]Val{}, id: vc.cellSeq, freeVars: freeVars, depth: depth, prefix: prefix, params: map[string]Val{}, top: depth == 0}
	fr.loops = findLoops(fn)
	fr.contract = vc.E.DB.Contracts[FuncKey(fn)]
	fr.fvRoles = vc.pendingRoles
	vc.pendingRoles = nil
	for i, p := range fn.Params {
		if i < len(args) {
			fr.vals[p] = args[i]
			fr.params[p.Name()] = args[i]
		}
	}
	if fr.contract != nil {
		vc.renameParams(fr, fn, fr.contract)
		if len(fr.contract.Asserts) > 0 {
			fr.anchors = computeAnchors(fn)
			if depth == 0 {
				vc.checkAnchorsBound(fr)
			}
		}
	}
	for i, fv := range fn.FreeVars {
		if i < len(freeVars) {
			fr.vals[fv] = freeVars[i]
		}
	}
	if len(fn.Blocks) == 0 {
		vc.note("function %s has no body", fn.String())
		return nil, nil, fr
	}
	savedDefers := st.defers
	st = st.clone()
	st.defers = nil
	if depth > 0 {
		fr.entry = st.clone()
	}
	in := map[*ssa.BasicBlock][]inEdge{fn.Blocks[0]: {{st, nil}}}
	var rets []retPoint
	loopEntry := map[*ssa.BasicBlock]*State{} // state before havoc, for decreases/old-in-loop
	for _, b := range topoOrder(fn) {
		ins := in[b]
		var live []inEdge
		for _, e := range ins {
			if !e.st.pc.IsFalse() {
				live = append(live, e)
			}
		}
		if len(live) == 0 {
			continue
		}
		sts := make([]*State, len(live))
		for i, e := range live {
			sts[i] = e.st
		}
		cur := vc.mergeStates(sts, fmt.Sprintf("%s block %d", fn.Name(), b.Index))
		if len(sts) == 1 {
			cur = cur.clone()
		}
		// phis
		for _, ins := range b.Instrs {
			phi, ok := ins.(*ssa.Phi)
			if !ok {
				break
			}
			var vs []Val
			var cs []*Term
			for _, e := range live {
				for pi, pr := range b.Preds {
					if pr == e.from {
						vs = append(vs, vc.operand(fr, e.st, phi.Edges[pi]))
						cs = append(cs, e.st.pc)
						break
					}
				}
			}
			if li := fr.loops[b]; li != nil || len(vs) == 0 {
				fr.vals[phi] = vc.freshVal(cur, phi.Type(), "phi$"+phi.Name())
			} else {
				fr.vals[phi] = vc.mergeVal(cs, vs, "phi "+phi.Name())
			}
		}
		if li := fr.loops[b]; li != nil {
			cur = vc.enterLoop(fr, li, cur)
			loopEntry[b] = cur.clone()
		}
		var outs []inEdge // successor states in order of b.Succs
		for _, ins := range b.Instrs {
			if cur.pc.IsFalse() {
				break
			}
			vc.stats.instrs++
			switch x := ins.(type) {
			case *ssa.If:
				c := vc.asBool(vc.operand(fr, cur, x.Cond))
				s0 := cur.clone()
				s0.pc = vc.P.And(cur.pc, c)
				s1 := cur.clone()
				s1.pc = vc.P.And(cur.pc, vc.P.Not(c))
				outs = []inEdge{{s0, b}, {s1, b}}
			case *ssa.Jump:
				outs = []inEdge{{cur, b}}
			case *ssa.Return:
				var res []Val
				for _, r := range x.Results {
					res = append(res, vc.operand(fr, cur, r))
				}
				rets = append(rets, retPoint{cur, res})
			case *ssa.Panic:
				vc.execPanic(fr, cur, x)
			default:
				vc.execInstr(fr, cur, ins)
			}
		}
		for i, e := range outs {
			if i >= len(b.Succs) {
				break
			}
			succ := b.Succs[i]
			if succ.Dominates(b) && fr.loops[succ] != nil {
				vc.closeLoop(fr, fr.loops[succ], e.st, loopEntry[succ])
				continue
			}
			in[succ] = append(in[succ], e)
		}
	}
	if len(rets) == 0 {
		return nil, nil, fr
	}
	sts := make([]*State, len(rets))
	for i, r := range rets {
		sts[i] = r.st
	}
	exit := vc.mergeStates(sts, fn.Name()+" exit")
	if len(sts) == 1 {
		exit = exit.clone()
	}
	nres := len(rets[0].res)
	results := make([]Val, nres)
	for j := 0; j < nres; j++ {
		vs := make([]Val, len(rets))
		cs := make([]*Term, len(rets))
		for i, r := range rets {
			vs[i] = r.res[j]
			cs[i] = r.st.pc
		}
		results[j] = vc.mergeVal(cs, vs, fmt.Sprintf("%s result %d", fn.Name(), j))
	}
	exit.defers = savedDefers
	return exit, results, fr
}

func (vc *VC) renameParams(fr *frame, fn *ssa.Function, c *Contract) {
	// positional names from the contract header (receiver first when present)
	names := []string{}
	if fn.Signature.Recv() != nil {
		names = append(names, c.RecvName)
	}
	names = append(names, c.ParamNames...)
	if len(c.ParamNames) == 0 && c.RecvName == "" {
		return
	}
	for i, p := range fn.Params {
		if i < len(names) && names[i] != "" && names[i] != "_" {
			if v, ok := fr.vals[p]; ok {
				fr.params[names[i]] = v
			}
		}
	}
}

// ---------------------------------------------------------------- operands

func (vc *VC) operand(fr *frame, st *State, v ssa.Value) Val {
	if val, ok := fr.vals[v]; ok {
		return val
	}
	switch x := v.(type) {
	case *ssa.Const:
		return vc.constVal(st, x)
	case *ssa.Global:
		return Val{K: VAddr, A: &Addr{K: AGlobal, Glob: x, ET: x.Type().(*types.Pointer).Elem()}}
	case *ssa.Function:
		return Val{K: VScalar, T: vc.P.App("fn$"+sanitize(FuncKey(x)), SInt), Fn: &FuncVal{Fn: x}}
	case *ssa.Builtin:
		return scalar(vc.P.Int(0))
	}
	vc.note("use of undefined SSA value %s (%T) in %s", v.Name(), v, fr.fn.Name())
	nv := vc.freshVal(st, v.Type(), "undef$"+v.Name())
	fr.vals[v] = nv
	return nv
}

func (vc *VC) constVal(st *State, c *ssa.Const) Val {
	p := vc.P
	t := c.Type()
	if c.Value == nil {
		return vc.zeroVal(st, t)
	}
	switch c.Value.Kind() {
	case constant.Bool:
		return scalar(p.Bool(constant.BoolVal(c.Value)))
	case constant.Int:
		bi, ok := new(big.Int).SetString(c.Value.ExactString(), 10)
		if !ok {
			return scalar(p.Fresh("const", SInt))
		}
		return scalar(p.BigInt(bi))
	case constant.String:
		return scalar(vc.strLit(constant.StringVal(c.Value)))
	case constant.Float, constant.Complex:
		if b, ok := t.Underlying().(*types.Basic); ok && b.Info()&types.IsInteger != 0 {
			if i := constant.ToInt(c.Value); i.Kind() == constant.Int {
				bi, _ := new(big.Int).SetString(i.ExactString(), 10)
				return scalar(p.BigInt(bi))
			}
		}
		return scalar(p.App("floatconst$"+sanitize(c.Value.ExactString()), SInt))
	}
	return scalar(p.Fresh("const", SInt))
}

func (vc *VC) strLit(s string) *Term {
	p := vc.P
	if s == "" {
		return p.Int(0)
	}
	id, ok := vc.E.strLits[s]
	if !ok {
		id = len(vc.E.strLits) + 1
		vc.E.strLits[s] = id
	}
	t := p.Int(int64(-1000000 - id))
	if !vc.typed[t] {
		vc.typed[t] = true
		vc.assumeGlobal(p.Eq(p.App("strlen", SInt, t), p.Int(int64(len(s)))))
	}
	return t
}

// ---------------------------------------------------------------- addresses

func (vc *VC) load(fr *frame, st *State, ptr Val, t types.Type, pos token.Pos) Val {
	p := vc.P
	if ptr.K == VScalar {
		// pointer held as a reference
		vc.check(st, "nil", "load", "pointer dereference", p.Ne(ptr.T, p.Int(0)), pos)
		if _, ok := structOf(t); ok {
			return vc.loadStruct(st, ptr.T, t)
		}
		return vc.loadMem(st, ptr.T, t)
	}
	if ptr.K != VAddr {
		vc.note("load through non-pointer value")
		return vc.freshVal(st, t, "badload")
	}
	a := ptr.A
	switch a.K {
	case ACell:
		v, ok := st.cells[cellKey{a.Cell, a.CellID}]
		if !ok {
			v = vc.zeroVal(st, a.Cell.Type().(*types.Pointer).Elem())
		}
		if a.Index != nil {
			return scalar(p.App("arrsel", SInt, vc.asInt(v), a.Index))
		}
		return v
	case AField:
		return vc.loadField(st, a.Ref, a.ST, a.Idx)
	case AElem:
		if _, ok := structOf(a.ET); ok {
			return vc.loadStruct(st, vc.elemRef(st, a.Arr, a.Index, a.ET), a.ET)
		}
		return vc.loadMaps(st, elemMapKey(a.ET), []*Term{a.Arr, a.Index}, a.ET)
	case AMem:
		return vc.loadMem(st, a.Ref, a.ET)
	case AGlobal:
		return vc.loadGlobal(st, a.Glob)
	case AArr:
		vc.note("whole-array load of a heap array: value unconstrained")
		return vc.freshVal(st, t, "arrayval")
	}
	panic("load")
}

func (vc *VC) loadMem(st *State, ref *Term, t types.Type) Val {
	p := vc.P
	if isUint256(t) {
		v := scalar(p.Select(vc.heapGet(st, memMapKey(t), SArrII), ref))
		if !vc.typed[v.T] {
			vc.typed[v.T] = true
			vc.assumeGlobal(p.And(p.Le(p.Int(0), v.T), p.Lt(v.T, p.BigInt(two256))))
		}
		return v
	}
	if _, ok := structOf(t); ok {
		return vc.loadStruct(st, ref, t)
	}
	return vc.loadMaps(st, memMapKey(t), []*Term{ref}, t)
}

var two256 = new(big.Int).Lsh(big.NewInt(1), 256)
var two255 = new(big.Int).Lsh(big.NewInt(1), 255)

func (vc *VC) store(fr *frame, st *State, ptr Val, t types.Type, v Val, pos token.Pos) {
	p := vc.P
	if ptr.K == VScalar {
		vc.check(st, "nil", "store", "pointer dereference (store)", p.Ne(ptr.T, p.Int(0)), pos)
		if _, ok := structOf(t); ok {
			vc.storeStruct(st, ptr.T, t, v)
			return
		}
		vc.storeMaps(st, memMapKey(t), []*Term{ptr.T}, t, v)
		vc.written[memMapKey(t)] = true
		return
	}
	if ptr.K != VAddr {
		vc.note("store through non-pointer value")
		return
	}
	a := ptr.A
	switch a.K {
	case ACell:
		k := cellKey{a.Cell, a.CellID}
		if a.Index != nil {
			old, ok := st.cells[k]
			if !ok {
				old = vc.zeroVal(st, a.Cell.Type().(*types.Pointer).Elem())
			}
			ns := p.App("arrset", SInt, vc.asInt(old), a.Index, vc.asInt(v))
			vc.assumeGlobal(p.Eq(p.App("arrsel", SInt, ns, a.Index), vc.asInt(v)))
			if at, ok := a.Cell.Type().Underlying().(*types.Pointer).Elem().Underlying().(*types.Array); ok && at.Len() <= 8 {
				for j := int64(0); j < at.Len(); j++ {
					vc.assumeGlobal(p.Implies(p.Ne(a.Index, p.Int(j)), p.Eq(p.App("arrsel", SInt, ns, p.Int(j)), p.App("arrsel", SInt, vc.asInt(old), p.Int(j)))))
				}
			}
			st.cells[k] = scalar(ns)
			return
		}
		st.cells[k] = v
	case AField:
		vc.storeField(st, a.Ref, a.ST, a.Idx, v)
	case AElem:
		if _, ok := structOf(a.ET); ok {
			vc.storeStruct(st, vc.elemRef(st, a.Arr, a.Index, a.ET), a.ET, v)
			return
		}
		vc.storeMaps(st, elemMapKey(a.ET), []*Term{a.Arr, a.Index}, a.ET, v)
		vc.written[elemMapKey(a.ET)] = true
	case AMem:
		if _, ok := structOf(a.ET); ok {
			vc.storeStruct(st, a.Ref, a.ET, v)
			return
		}
		vc.storeMaps(st, memMapKey(a.ET), []*Term{a.Ref}, a.ET, v)
		vc.written[memMapKey(a.ET)] = true
	case AGlobal:
		vc.storeGlobal(st, a.Glob, v)
	case AArr:
		vc.note("whole-array store into a heap array: not recorded")
		vc.unsound("whole-array store into heap array")
	}
}

func globalKey(g *ssa.Global) string {
	return "G$" + g.Pkg.Pkg.Name() + "." + g.Name()
}

func (vc *VC) loadGlobal(st *State, g *ssa.Global) Val {
	t := g.Type().(*types.Pointer).Elem()
	if id, ok := vc.E.sentinelID(g); ok {
		// immutable error sentinels: non-nil, pairwise distinct references
		return scalar(vc.P.Int(int64(-2000000 - id)))
	}
	if vc.E.isStableGlobal(g) {
		switch classify(t) {
		case TKInt:
			v := scalar(vc.P.Var("glob$"+g.Pkg.Pkg.Name()+"."+g.Name(), SInt))
			if isRefType(t) && !vc.typed[v.T] {
				// a package-level reference that is only assigned by its package initialiser was allocated
				// before any function under contract started
				vc.typed[v.T] = true
				if a0, ok := vc.heap0[allocKey]; ok {
					vc.assumeGlobal(vc.P.Le(v.T, a0))
				}
			}
			return v
		case TKBool:
			return scalar(vc.P.Var("glob$"+g.Pkg.Pkg.Name()+"."+g.Name(), SBool))
		}
	}
	if _, ok := structOf(t); ok {
		return vc.loadStruct(st, vc.P.App("globref$"+g.Pkg.Pkg.Name()+"."+g.Name(), SInt), t)
	}
	return vc.loadMaps(st, globalKey(g), nil, t)
}

func (vc *VC) storeGlobal(st *State, g *ssa.Global, v Val) {
	t := g.Type().(*types.Pointer).Elem()
	if _, ok := structOf(t); ok {
		vc.storeStruct(st, vc.P.App("globref$"+g.Pkg.Pkg.Name()+"."+g.Name(), SInt), t, v)
		return
	}
	vc.storeMaps(st, globalKey(g), nil, t, v)
	vc.written[globalKey(g)] = true
}

// ---------------------------------------------------------------- instructions

func (vc *VC) execInstr(fr *frame, st *State, ins ssa.Instruction) {
	p := vc.P
	switch x := ins.(type) {
	case *ssa.DebugRef:
	case *ssa.Alloc:
		vc.execAlloc(fr, st, x)
	case *ssa.Store:
		t := x.Addr.Type().Underlying().(*types.Pointer).Elem()
		if lab, ok := fr.anchors[x]; ok {
			extra := map[string]EV{"$value": {V: vc.operand(fr, st, x.Val), T: t}}
			if fa, isFA := x.Addr.(*ssa.FieldAddr); isFA {
				extra["$target"] = EV{V: vc.operand(fr, st, fa.X), T: fa.X.Type()}
			}
			vc.anchorAsserts(fr, st, lab, extra, x.Pos())
			vc.markMust(fr, st, lab)
		}
		vc.store(fr, st, vc.operand(fr, st, x.Addr), t, vc.operand(fr, st, x.Val), x.Pos())
	case *ssa.UnOp:
		fr.vals[x] = vc.execUnOp(fr, st, x)
	case *ssa.BinOp:
		fr.vals[x] = vc.execBinOp(fr, st, x)
	case *ssa.FieldAddr:
		fr.vals[x] = vc.execFieldAddr(fr, st, x)
	case *ssa.Field:
		sv := vc.operand(fr, st, x.X)
		if sv.K == VStruct && x.Field < len(sv.Fs) {
			fr.vals[x] = sv.Fs[x.Field]
		} else {
			vc.note("Field of non-struct value in %s", fr.fn.Name())
			fr.vals[x] = vc.freshVal(st, x.Type(), "field")
		}
	case *ssa.Extract:
		tv := vc.operand(fr, st, x.Tuple)
		if tv.K == VStruct && x.Index < len(tv.Fs) {
			fr.vals[x] = tv.Fs[x.Index]
		} else {
			vc.note("Extract of non-tuple value in %s", fr.fn.Name())
			fr.vals[x] = vc.freshVal(st, x.Type(), "extract")
		}
	case *ssa.IndexAddr:
		fr.vals[x] = vc.execIndexAddr(fr, st, x)
	case *ssa.Index:
		fr.vals[x] = vc.execIndex(fr, st, x)
	case *ssa.Slice:
		fr.vals[x] = vc.execSlice(fr, st, x)
	case *ssa.Call:
		if lab, ok := fr.anchors[x]; ok {
			extra := map[string]EV{}
			for i, a := range x.Call.Args {
				extra[fmt.Sprintf("$arg%d", i)] = EV{V: vc.operand(fr, st, a), T: a.Type()}
			}
			if x.Call.IsInvoke() {
				// the interface value a method is invoked on
				extra["$target"] = EV{V: vc.operand(fr, st, x.Call.Value), T: x.Call.Value.Type()}
			}
			vc.anchorAsserts(fr, st, lab, extra, x.Pos())
		}
		fr.vals[x] = vc.execCall(fr, st, x)
		if lab, ok := fr.anchors[x]; ok && fr.contract != nil {
			vc.anchorPost(fr, st, lab)
			vc.markMust(fr, st, lab)
			vc.anchorAfter(fr, st, lab, fr.vals[x], x.Type(), x.Pos())
		}
	case *ssa.Defer:
		st.defers = append(st.defers, deferred{x, fr})
	case *ssa.RunDefers:
		vc.runDefers(fr, st)
	case *ssa.Go:
		vc.note("go statement in %s: outside the subset", fr.fn.Name())
		vc.unsound("goroutine started in " + fr.fn.Name())
	case *ssa.ChangeType:
		fr.vals[x] = vc.operand(fr, st, x.X)
	case *ssa.ChangeInterface:
		fr.vals[x] = vc.operand(fr, st, x.X)
	case *ssa.Convert:
		fr.vals[x] = vc.execConvert(fr, st, x)
	case *ssa.MakeInterface:
		fr.vals[x] = vc.makeInterface(st, vc.operand(fr, st, x.X), x.X.Type())
	case *ssa.TypeAssert:
		fr.vals[x] = vc.execTypeAssert(fr, st, x)
	case *ssa.MakeSlice:
		n := vc.asInt(vc.operand(fr, st, x.Len))
		c := vc.asInt(vc.operand(fr, st, x.Cap))
		vc.check(st, "bounds", "makeslice", "make([]T, len, cap): 0 <= len <= cap", p.And(p.Le(p.Int(0), n), p.Le(n, c)), x.Pos())
		arr := vc.newRef(st, "arr")
		et := x.Type().Underlying().(*types.Slice).Elem()
		vc.zeroElems(st, arr, et)
		fr.vals[x] = Val{K: VSlice, Arr: arr, Off: p.Int(0), Len: n, Cap: c}
	case *ssa.MakeMap:
		m := vc.newRef(st, "map")
		mt := x.Type().Underlying().(*types.Map)
		dk := mapKey(mt) + "#dom"
		dom := vc.heapGet(st, dk, SArrIAB)
		vc.heapSet(st, dk, p.Store(dom, m, p.ConstArr(SArrIB, p.False())))
		vc.written[dk] = true
		fr.vals[x] = scalar(m)
	case *ssa.MakeChan:
		fr.vals[x] = scalar(vc.newRef(st, "chan"))
		vc.note("channel created in %s: outside the subset", fr.fn.Name())
	case *ssa.MakeClosure:
		fn := x.Fn.(*ssa.Function)
		fv := &FuncVal{Fn: fn}
		for _, b := range x.Bindings {
			fv.Bindings = append(fv.Bindings, vc.operand(fr, st, b))
			fv.Roles = append(fv.Roles, roleField(b))
		}
		fr.vals[x] = Val{K: VScalar, T: vc.newRef(st, "closure"), Fn: fv}
	case *ssa.Lookup:
		fr.vals[x] = vc.execLookup(fr, st, x)
	case *ssa.MapUpdate:
		vc.execMapUpdate(fr, st, x)
	case *ssa.Range:
		fr.vals[x] = vc.execRange(fr, st, x)
	case *ssa.Next:
		fr.vals[x] = vc.execNext(fr, st, x)
	case *ssa.Phi:
		// handled at block entry
	case *ssa.Send, *ssa.Select:
		vc.note("channel operation in %s: outside the subset", fr.fn.Name())
		vc.unsound("channel operation in " + fr.fn.Name())
		if v, ok := ins.(ssa.Value); ok {
			fr.vals[v] = vc.freshVal(st, v.Type(), "chanop")
		}
	case *ssa.SliceToArrayPointer, *ssa.MultiConvert:
		v := ins.(ssa.Value)
		vc.note("unsupported instruction %T in %s: result havocked", ins, fr.fn.Name())
		fr.vals[v] = vc.freshVal(st, v.Type(), "unsupported")
	default:
		vc.note("unsupported instruction %T in %s", ins, fr.fn.Name())
		if v, ok := ins.(ssa.Value); ok {
			fr.vals[v] = vc.freshVal(st, v.Type(), "unsupported")
		}
	}
}

func (vc *VC) execPanic(fr *frame, st *State, x *ssa.Panic) {
	label := "explicit"
	if c, ok := x.X.(*ssa.MakeInterface); ok {
		if k, ok := c.X.(*ssa.Const); ok && k.Value != nil && k.Value.Kind() == constant.String {
			label = shortLabel(constant.StringVal(k.Value))
		}
	}
	if vc.safety {
		vc.oblige(st, "panic", fr.prefix+label, "explicit panic is unreachable", vc.P.False(), nil, x.Pos(), true)
	}
	// execution does not continue
	st.pc = vc.P.False()
}

func shortLabel(s string) string {
	var sb strings.Builder
	for _, r := range s {
		if r >= 'a' && r <= 'z' || r >= 'A' && r <= 'Z' || r >= '0' && r <= '9' {
			sb.WriteRune(r)
		} else if sb.Len() > 0 && !strings.HasSuffix(sb.String(), "_") {
			sb.WriteByte('_')
		}
		if sb.Len() >= 32 {
			break
		}
	}
	return strings.Trim(sb.String(), "_")
}

func (vc *VC) execAlloc(fr *frame, st *State, x *ssa.Alloc) {
	t := x.Type().Underlying().(*types.Pointer).Elem()
	if _, ok := structOf(t); ok {
		ref := vc.newRef(st, shortLabel(typeKey(t)))
		vc.storeStruct(st, ref, t, vc.zeroVal(st, t))
		vc.allocTypes[typeKey(t)] = true
		vc.assume(st, vc.P.Eq(vc.P.App("dtype", SInt, ref), vc.P.Int(int64(vc.E.typeTag(x.Type())))))
		fr.vals[x] = scalar(ref)
		return
	}
	if at, isArr := t.Underlying().(*types.Array); isArr && !isBasicInt(at.Elem()) {
		// arrays of pointers, interfaces, slices or structs (variadic argument packs, literals) live in the
		// heap like slice backing arrays
		arr := vc.newRef(st, "array")
		vc.zeroElems(st, arr, at.Elem())
		fr.vals[x] = Val{K: VAddr, A: &Addr{K: AArr, Arr: arr, ET: at.Elem(), N: at.Len()}}
		return
	}
	if x.Heap && allocEscapes(x) {
		ref := vc.newRef(st, shortLabel(typeKey(t)))
		z := vc.zeroVal(st, t)
		vc.storeMaps(st, memMapKey(t), []*Term{ref}, t, z)
		vc.allocTypes[typeKey(t)] = true
		fr.vals[x] = scalar(ref)
		return
	}
	k := cellKey{x, fr.id}
	st.cells[k] = vc.zeroVal(st, t)
	fr.vals[x] = Val{K: VAddr, A: &Addr{K: ACell, Cell: x, CellID: fr.id, ET: t}}
}

// allocEscapes reports whether the address of a non-struct local is used as a first-class value
// (passed to a call, stored, returned, boxed) rather than only loaded/stored/captured.
func allocEscapes(a *ssa.Alloc) bool {
	refs := a.Referrers()
	if refs == nil {
		return false
	}
	for _, r := range *refs {
		switch u := r.(type) {
		case *ssa.Store:
			if u.Val == a {
				return true
			}
		case *ssa.UnOp, *ssa.DebugRef, *ssa.MakeClosure, *ssa.IndexAddr, *ssa.FieldAddr, *ssa.Slice:
		case *ssa.Call:
			// &local passed to a call: callee handling will havoc the cell; keep it a cell unless it is a uint256
			if isUint256(a.Type().Underlying().(*types.Pointer).Elem()) {
				return true
			}
		default:
			return true
		}
	}
	return false
}

func (vc *VC) zeroElems(st *State, arr *Term, et types.Type) {
	p := vc.P
	if _, ok := structOf(et); ok {
		return // fields of fresh element refs are unconstrained; zeroing would need a quantifier
	}
	switch classify(et) {
	case TKInt:
		k := elemMapKey(et)
		m := vc.heapGet(st, k, SArrIAI)
		vc.heapSet(st, k, p.Store(m, arr, p.ConstArr(SArrII, p.Int(0))))
		vc.written[k] = true
	case TKBool:
		k := elemMapKey(et)
		m := vc.heapGet(st, k, SArrIAB)
		vc.heapSet(st, k, p.Store(m, arr, p.ConstArr(SArrIB, p.False())))
		vc.written[k] = true
	case TKSlice:
		for _, c := range sliceComps {
			k := elemMapKey(et) + c.suffix
			m := vc.heapGet(st, k, SArrIAI)
			vc.heapSet(st, k, p.Store(m, arr, p.ConstArr(SArrII, p.Int(0))))
			vc.written[k] = true
		}
	}
}

func (vc *VC) execFieldAddr(fr *frame, st *State, x *ssa.FieldAddr) Val {
	p := vc.P
	base := vc.operand(fr, st, x.X)
	stT := x.X.Type().Underlying().(*types.Pointer).Elem()
	s, ok := structOf(stT)
	if !ok {
		vc.note("FieldAddr on opaque struct %s", typeKey(stT))
		return Val{K: VAddr, A: &Addr{K: AMem, Ref: p.Fresh("opaquefield", SInt), ET: x.Type().(*types.Pointer).Elem()}}
	}
	if base.K != VScalar {
		vc.note("FieldAddr on non-reference base in %s", fr.fn.Name())
		return Val{K: VAddr, A: &Addr{K: AMem, Ref: p.Fresh("badbase", SInt), ET: s.Field(x.Field).Type()}}
	}
	vc.check(st, "nil", "field."+s.Field(x.Field).Name(), "nil dereference at ."+s.Field(x.Field).Name(), p.Ne(base.T, p.Int(0)), x.Pos())
	ft := s.Field(x.Field).Type()
	if _, ok := structOf(ft); ok {
		return scalar(vc.subRef(st, base.T, stT, x.Field))
	}
	return Val{K: VAddr, A: &Addr{K: AField, Ref: base.T, ST: stT, Idx: x.Field, ET: ft}}
}

func (vc *VC) execIndexAddr(fr *frame, st *State, x *ssa.IndexAddr) Val {
	p := vc.P
	base := vc.operand(fr, st, x.X)
	idx := vc.asInt(vc.operand(fr, st, x.Index))
	switch bt := x.X.Type().Underlying().(type) {
	case *types.Slice:
		if base.K != VSlice {
			vc.note("IndexAddr on non-slice value")
			base = vc.freshSlice("badslice")
		}
		vc.check(st, "bounds", "index", "index in range", p.And(p.Le(p.Int(0), idx), p.Lt(idx, base.Len)), x.Pos())
		et := bt.Elem()
		pos := p.Add(base.Off, idx)
		if _, ok := structOf(et); ok {
			return scalar(vc.elemRef(st, base.Arr, pos, et))
		}
		return Val{K: VAddr, A: &Addr{K: AElem, Arr: base.Arr, Index: pos, ET: et}}
	case *types.Pointer:
		at := bt.Elem().Underlying().(*types.Array)
		vc.check(st, "bounds", "index", "array index in range", p.And(p.Le(p.Int(0), idx), p.Lt(idx, p.Int(at.Len()))), x.Pos())
		if base.K == VAddr && base.A.K == AArr {
			if _, ok := structOf(at.Elem()); ok {
				return scalar(vc.elemRef(st, base.A.Arr, idx, at.Elem()))
			}
			return Val{K: VAddr, A: &Addr{K: AElem, Arr: base.A.Arr, Index: idx, ET: at.Elem()}}
		}
		if base.K == VAddr && base.A.K == ACell && base.A.Index == nil {
			a := *base.A
			a.Index = idx
			a.ET = at.Elem()
			return Val{K: VAddr, A: &a}
		}
		vc.note("IndexAddr into array that is not a local cell in %s: element havocked", fr.fn.Name())
		return Val{K: VAddr, A: &Addr{K: AMem, Ref: p.Fresh("arrelem", SInt), ET: at.Elem()}}
	}
	vc.note("IndexAddr on %s", x.X.Type())
	return Val{K: VAddr, A: &Addr{K: AMem, Ref: p.Fresh("idx", SInt), ET: x.Type().(*types.Pointer).Elem()}}
}

func (vc *VC) execIndex(fr *frame, st *State, x *ssa.Index) Val {
	p := vc.P
	base := vc.operand(fr, st, x.X)
	idx := vc.asInt(vc.operand(fr, st, x.Index))
	switch bt := x.X.Type().Underlying().(type) {
	case *types.Array:
		vc.check(st, "bounds", "index", "array index in range", p.And(p.Le(p.Int(0), idx), p.Lt(idx, p.Int(bt.Len()))), x.Pos())
		v := scalar(p.App("arrsel", SInt, vc.asInt(base), idx))
		vc.assumeType(st, v, bt.Elem())
		return v
	case *types.Basic: // string
		vc.check(st, "bounds", "strindex", "string index in range", p.And(p.Le(p.Int(0), idx), p.Lt(idx, p.App("strlen", SInt, vc.asInt(base)))), x.Pos())
		v := scalar(p.App("strbyte", SInt, vc.asInt(base), idx))
		vc.assumeGlobal(p.And(p.Le(p.Int(0), v.T), p.Le(v.T, p.Int(255))))
		return v
	}
	return vc.freshVal(st, x.Type(), "index")
}

func (vc *VC) execSlice(fr *frame, st *State, x *ssa.Slice) Val {
	p := vc.P
	base := vc.operand(fr, st, x.X)
	var lo, hi, mx *Term
	if x.Low != nil {
		lo = vc.asInt(vc.operand(fr, st, x.Low))
	}
	if x.High != nil {
		hi = vc.asInt(vc.operand(fr, st, x.High))
	}
	if x.Max != nil {
		mx = vc.asInt(vc.operand(fr, st, x.Max))
	}
	switch bt := x.X.Type().Underlying().(type) {
	case *types.Slice:
		if base.K != VSlice {
			base = vc.freshSlice("badslice")
		}
		if lo == nil {
			lo = p.Int(0)
		}
		if hi == nil {
			hi = base.Len
		}
		capv := base.Cap
		if mx != nil {
			capv = mx
		}
		cond := p.And(p.Le(p.Int(0), lo), p.Le(lo, hi), p.Le(hi, capv), p.Le(capv, base.Cap))
		vc.check(st, "bounds", "slice", "slice bounds in range", cond, x.Pos())
		arr := base.Arr
		// slicing a nil slice yields nil
		return Val{K: VSlice, Arr: arr, Off: p.Add(base.Off, lo), Len: p.Sub(hi, lo), Cap: p.Sub(capv, lo)}
	case *types.Basic: // string
		s := vc.asInt(base)
		n := p.App("strlen", SInt, s)
		if lo == nil {
			lo = p.Int(0)
		}
		if hi == nil {
			hi = n
		}
		vc.check(st, "bounds", "strslice", "string slice bounds in range", p.And(p.Le(p.Int(0), lo), p.Le(lo, hi), p.Le(hi, n)), x.Pos())
		r := p.App("substr", SInt, s, lo, hi)
		vc.assumeGlobal(p.Eq(p.App("strlen", SInt, r), p.Sub(hi, lo)))
		return scalar(r)
	case *types.Pointer:
		at := bt.Elem().Underlying().(*types.Array)
		n := p.Int(at.Len())
		if lo == nil {
			lo = p.Int(0)
		}
		if hi == nil {
			hi = n
		}
		vc.check(st, "bounds", "arrslice", "array slice bounds in range", p.And(p.Le(p.Int(0), lo), p.Le(lo, hi), p.Le(hi, n)), x.Pos())
		if base.K == VAddr && base.A.K == AArr {
			return Val{K: VSlice, Arr: base.A.Arr, Off: lo, Len: p.Sub(hi, lo), Cap: p.Sub(n, lo)}
		}
		// a slice view of an addressable array: materialise a backing array holding the array's bytes
		var content *Term
		var org *Addr
		if base.K == VAddr {
			content = vc.asInt(vc.load(fr, st, base, bt.Elem(), x.Pos()))
			org = base.A
		} else {
			content = p.Fresh("arrcontent", SInt)
		}
		arr := vc.newRef(st, "arrview")
		k := elemMapKey(at.Elem())
		m := vc.heapGet(st, k, SArrIAI)
		elems := p.App("arrelems", SArrII, content)
		if !vc.typed[elems] {
			vc.typed[elems] = true
			if at.Len() <= 8 {
				for j := int64(0); j < at.Len(); j++ {
					vc.assumeGlobal(p.Eq(p.Select(elems, p.Int(j)), p.App("arrsel", SInt, content, p.Int(j))))
				}
			} else {
				vc.qSeq++
				j := p.Var(fmt.Sprintf("j?%d", vc.qSeq), SInt)
				vc.assumeGlobal(p.Forall([]*Term{j}, p.Eq(p.Select(elems, j), p.App("arrsel", SInt, content, j))))
			}
			// an array value is determined by its elements (left inverse of the element view)
			vc.assumeGlobal(p.Eq(p.App("arrofelems", SInt, elems), content))
			if b, isB := at.Elem().Underlying().(*types.Basic); isB && b.Kind() == types.Uint8 {
				vc.assumeGlobal(p.Eq(p.App("arrofbytes$"+typeKey(bt.Elem().Underlying()), SInt, p.App("bcontent", SInt, elems, p.Int(0), p.Int(at.Len()))), content))
			}
		}
		vc.heapSet(st, k, p.Store(m, arr, elems))
		v := Val{K: VSlice, Arr: arr, Off: lo, Len: p.Sub(hi, lo), Cap: p.Sub(n, lo), Org: org}
		return v
	}
	vc.note("Slice of %s", x.X.Type())
	return vc.freshVal(st, x.Type(), "slice")
}

func (vc *VC) execUnOp(fr *frame, st *State, x *ssa.UnOp) Val {
	p := vc.P
	v := vc.operand(fr, st, x.X)
	switch x.Op {
	case token.MUL:
		return vc.load(fr, st, v, x.Type(), x.Pos())
	case token.NOT:
		return scalar(p.Not(vc.asBool(v)))
	case token.SUB:
		r := p.Neg(vc.asInt(v))
		return vc.arithResult(fr, st, r, x.Type(), "neg", x.Pos())
	case token.XOR:
		r := scalar(p.App("bitnot$"+typeKey(x.Type()), SInt, vc.asInt(v)))
		vc.assumeType(st, r, x.Type())
		return r
	case token.ARROW:
		vc.note("channel receive in %s: outside the subset", fr.fn.Name())
		vc.unsound("channel receive in " + fr.fn.Name())
		return vc.freshVal(st, x.Type(), "recv")
	}
	return vc.freshVal(st, x.Type(), "unop")
}

// arithResult applies the machine-integer semantics to a mathematically computed result.
func (vc *VC) arithResult(fr *frame, st *State, r *Term, t types.Type, op string, pos token.Pos) Val {
	p := vc.P
	lo, hi, ok := intRange(t)
	if !ok {
		return scalar(r)
	}
	l, _ := newBig(lo)
	h, _ := newBig(hi)
	inRange := p.And(p.Le(p.BigInt(l), r), p.Le(r, p.BigInt(h)))
	if inRange.IsTrue() {
		return scalar(r)
	}
	if vc.arith {
		vc.oblige(st, "arith", fr.prefix+op, "no overflow in "+op+" on "+typeKey(t), inRange, nil, pos, true)
		vc.assume(st, inRange)
		return scalar(r)
	}
	if l.Sign() == 0 {
		// unsigned: exact wrap-around
		m := new(big.Int).Add(h, big.NewInt(1))
		if op == "add" {
			return scalar(p.Ite(p.Le(r, p.BigInt(h)), r, p.Sub(r, p.BigInt(m))))
		}
		if op == "sub" {
			return scalar(p.Ite(p.Le(p.Int(0), r), r, p.Add(r, p.BigInt(m))))
		}
		return scalar(p.Mod(r, p.BigInt(m)))
	}
	// signed: machine arithmetic treated as mathematical (recorded assumption)
	vc.E.mathAssumed = true
	vc.assume(st, inRange)
	return scalar(r)
}

func isUnsigned(t types.Type) bool {
	b, ok := t.Underlying().(*types.Basic)
	return ok && b.Info()&types.IsUnsigned != 0
}

func (vc *VC) execBinOp(fr *frame, st *State, x *ssa.BinOp) Val {
	p := vc.P
	a := vc.operand(fr, st, x.X)
	b := vc.operand(fr, st, x.Y)
	t := x.X.Type()
	switch x.Op {
	case token.EQL, token.NEQ:
		eq := vc.valEquals(st, a, b, t)
		if x.Op == token.NEQ {
			eq = p.Not(eq)
		}
		return scalar(eq)
	case token.LAND:
		return scalar(p.And(vc.asBool(a), vc.asBool(b)))
	case token.LOR:
		return scalar(p.Or(vc.asBool(a), vc.asBool(b)))
	}
	if isString(t) {
		sa, sb := vc.asInt(a), vc.asInt(b)
		switch x.Op {
		case token.ADD:
			r := p.App("strcat", SInt, sa, sb)
			vc.assumeGlobal(p.Eq(p.App("strlen", SInt, r), p.Add(p.App("strlen", SInt, sa), p.App("strlen", SInt, sb))))
			return scalar(r)
		case token.LSS:
			return scalar(p.App("strlt", SBool, sa, sb))
		case token.GTR:
			return scalar(p.App("strlt", SBool, sb, sa))
		case token.LEQ:
			return scalar(p.Not(p.App("strlt", SBool, sb, sa)))
		case token.GEQ:
			return scalar(p.Not(p.App("strlt", SBool, sa, sb)))
		}
	}
	if bt, ok := t.Underlying().(*types.Basic); ok && bt.Info()&types.IsFloat != 0 {
		vc.note("floating point operation in %s: result unconstrained", fr.fn.Name())
		return vc.freshVal(st, x.Type(), "float")
	}
	ia, ib := vc.asInt(a), vc.asInt(b)
	switch x.Op {
	case token.LSS:
		return scalar(p.Lt(ia, ib))
	case token.LEQ:
		return scalar(p.Le(ia, ib))
	case token.GTR:
		return scalar(p.Gt(ia, ib))
	case token.GEQ:
		return scalar(p.Ge(ia, ib))
	case token.ADD:
		return vc.arithResult(fr, st, p.Add(ia, ib), x.Type(), "add", x.Pos())
	case token.SUB:
		return vc.arithResult(fr, st, p.Sub(ia, ib), x.Type(), "sub", x.Pos())
	case token.MUL:
		return vc.arithResult(fr, st, p.Mul(ia, ib), x.Type(), "mul", x.Pos())
	case token.QUO, token.REM:
		vc.check(st, "div", fr.prefix+"zero", "division by zero", p.Ne(ib, p.Int(0)), x.Pos())
		var q *Term
		if isUnsigned(x.Type()) {
			q = p.Div(ia, ib)
		} else {
			// Go truncates toward zero; SMT-LIB div is euclidean
			absA := p.Ite(p.Le(p.Int(0), ia), ia, p.Neg(ia))
			absB := p.Ite(p.Le(p.Int(0), ib), ib, p.Neg(ib))
			qa := p.Div(absA, absB)
			sameSign := p.Eq(p.Le(p.Int(0), ia), p.Le(p.Int(0), ib))
			q = p.Ite(sameSign, qa, p.Neg(qa))
		}
		if x.Op == token.QUO {
			return vc.arithResult(fr, st, q, x.Type(), "div", x.Pos())
		}
		return scalar(p.Sub(ia, p.Mul(ib, q)))
	case token.SHL:
		if c, ok := ib.IntVal(); ok && c.IsInt64() && c.Int64() >= 0 && c.Int64() < 256 {
			return vc.arithResult(fr, st, p.Mul(ia, p.BigInt(new(big.Int).Lsh(big.NewInt(1), uint(c.Int64())))), x.Type(), "shl", x.Pos())
		}
	case token.SHR:
		if c, ok := ib.IntVal(); ok && c.IsInt64() && c.Int64() >= 0 && c.Int64() < 256 && isUnsigned(x.Type()) {
			return scalar(p.Div(ia, p.BigInt(new(big.Int).Lsh(big.NewInt(1), uint(c.Int64())))))
		}
	case token.AND:
		// x & (2^k - 1) on unsigned
		if c, ok := ib.IntVal(); ok && isUnsigned(x.Type()) {
			c1 := new(big.Int).Add(c, big.NewInt(1))
			if c1.BitLen() > 0 && new(big.Int).And(c1, c).Sign() == 0 {
				return scalar(p.Mod(ia, p.BigInt(c1)))
			}
		}
	}
	r := scalar(p.App("bitop$"+x.Op.String()+"$"+typeKey(x.Type()), SInt, ia, ib))
	vc.assumeType(st, r, x.Type())
	return r
}

// valEquals is Go's == on two values of static type t.
func (vc *VC) valEquals(st *State, a, b Val, t types.Type) *Term {
	p := vc.P
	switch {
	case a.K == VScalar && b.K == VScalar:
		if a.T.S != b.T.S {
			return p.Fresh("badeq", SBool)
		}
		return p.Eq(a.T, b.T)
	case a.K == VSlice && b.K == VSlice:
		// only comparison with nil is legal
		if b.Arr.Op == "int" {
			return p.Eq(a.Arr, p.Int(0))
		}
		if a.Arr.Op == "int" {
			return p.Eq(b.Arr, p.Int(0))
		}
		return p.And(p.Eq(a.Arr, b.Arr), p.Eq(a.Off, b.Off), p.Eq(a.Len, b.Len))
	case a.K == VStruct && b.K == VStruct && len(a.Fs) == len(b.Fs):
		var cs []*Term
		s, _ := structOf(t)
		for i := range a.Fs {
			var ft types.Type
			if s != nil {
				ft = s.Field(i).Type()
			}
			cs = append(cs, vc.valEquals(st, a.Fs[i], b.Fs[i], ft))
		}
		return p.And(cs...)
	case a.K == VAddr && b.K == VAddr:
		if addrEq(a.A, b.A) {
			return p.True()
		}
		if a.A.K == ACell && b.A.K == ACell {
			return p.False()
		}
	case a.K == VAddr && b.K == VScalar:
		if b.T.Op == "int" && b.T.Name == "0" {
			return p.False()
		}
	case a.K == VScalar && b.K == VAddr:
		if a.T.Op == "int" && a.T.Name == "0" {
			return p.False()
		}
	}
	vc.note("comparison of unsupported value kinds; result unconstrained")
	return p.Fresh("eq", SBool)
}

func (vc *VC) execConvert(fr *frame, st *State, x *ssa.Convert) Val {
	p := vc.P
	v := vc.operand(fr, st, x.X)
	from, to := x.X.Type(), x.Type()
	_, _, fromInt := intRange(from)
	tlo, thi, toInt := intRange(to)
	switch {
	case fromInt && toInt:
		iv := vc.asInt(v)
		flo, fhi, _ := intRange(from)
		fl, _ := newBig(flo)
		fh, _ := newBig(fhi)
		tl, _ := newBig(tlo)
		th, _ := newBig(thi)
		if fl.Cmp(tl) >= 0 && fh.Cmp(th) <= 0 {
			return scalar(iv)
		}
		if vc.arith {
			inRange := p.And(p.Le(p.BigInt(tl), iv), p.Le(iv, p.BigInt(th)))
			vc.oblige(st, "arith", fr.prefix+"convert", fmt.Sprintf("conversion %s -> %s preserves the value", typeKey(from), typeKey(to)), inRange, nil, x.Pos(), true)
		}
		m := new(big.Int).Add(new(big.Int).Sub(th, tl), big.NewInt(1))
		if tl.Sign() == 0 {
			return scalar(p.Mod(iv, p.BigInt(m)))
		}
		half := new(big.Int).Neg(tl)
		return scalar(p.Sub(p.Mod(p.Add(iv, p.BigInt(half)), p.BigInt(m)), p.BigInt(half)))
	case isString(to) && isByteSlice(from):
		return scalar(vc.bytesContent(st, v))
	case isByteSlice(to) && isString(from):
		s := vc.asInt(v)
		vc.assumeGlobal(p.Le(p.Int(0), p.App("strlen", SInt, s))) // lengths of strings are non-negative
		return vc.bytesOfContent(st, s, p.App("strlen", SInt, s))
	case isString(to) && fromInt:
		return scalar(p.App("runestr", SInt, vc.asInt(v)))
	}
	if classify(from) == classify(to) && classify(to) != TKStruct {
		if bt, ok := to.Underlying().(*types.Basic); ok && bt.Info()&types.IsFloat != 0 {
			return vc.freshVal(st, to, "float")
		}
		if bf, ok := from.Underlying().(*types.Basic); ok && bf.Info()&types.IsFloat != 0 {
			return vc.freshVal(st, to, "fromfloat")
		}
		return v
	}
	vc.note("unsupported conversion %s -> %s in %s", from, to, fr.fn.Name())
	return vc.freshVal(st, to, "convert")
}

// bytesContent is the abstract content of a byte slice (a function of its elements, offset and length).
func (vc *VC) bytesContent(st *State, v Val) *Term {
	p := vc.P
	if v.K != VSlice {
		return p.Fresh("content", SInt)
	}
	m := vc.heapGet(st, "E$uint8", SArrIAI)
	c := p.App("bcontent", SInt, p.Select(m, v.Arr), v.Off, v.Len)
	if !vc.typed[c] {
		vc.typed[c] = true
		vc.assumeGlobal(p.Implies(p.Le(p.Int(0), v.Len), p.Eq(p.App("strlen", SInt, c), v.Len)))
	}
	// the empty byte string has one content, whatever the backing array
	return p.Ite(p.Eq(v.Len, p.Int(0)), p.Int(0), c)
}

// bytesOfContent makes a fresh byte slice holding the given content.
func (vc *VC) bytesOfContent(st *State, content, n *Term) Val {
	p := vc.P
	arr := vc.newRef(st, "bytes")
	m := vc.heapGet(st, "E$uint8", SArrIAI)
	elems := p.App("contentelems", SArrII, content)
	vc.heapSet(st, "E$uint8", p.Store(m, arr, elems))
	vc.assumeGlobal(p.Implies(p.Le(p.Int(0), n), p.Eq(p.App("bcontent", SInt, elems, p.Int(0), n), content)))
	return Val{K: VSlice, Arr: arr, Off: p.Int(0), Len: n, Cap: n}
}

func (vc *VC) makeInterface(st *State, v Val, t types.Type) Val {
	p := vc.P
	tag := p.Int(int64(vc.E.typeTag(t)))
	if isInterface(t) {
		return v
	}
	if _, ok := t.Underlying().(*types.Pointer); ok && v.K == VScalar {
		tn := p.App("typednil$"+sanitize(typeKey(t)), SInt)
		if !vc.typed[tn] {
			vc.typed[tn] = true
			vc.assumeGlobal(p.Lt(tn, p.Int(-3000000)))
			vc.assumeGlobal(p.Eq(p.App("dtype", SInt, tn), tag))
		}
		r := p.Ite(p.Eq(v.T, p.Int(0)), tn, v.T)
		vc.assume(st, p.Eq(p.App("dtype", SInt, r), tag))
		return scalar(r)
	}
	// boxed non-pointer value
	var args []*Term
	switch v.K {
	case VScalar:
		if v.T.S == SBool {
			args = []*Term{p.Ite(v.T, p.Int(1), p.Int(0))}
		} else {
			args = []*Term{v.T}
		}
	case VSlice:
		args = []*Term{v.Arr, v.Off, v.Len, v.Cap}
	default:
		r := p.Fresh("box", SInt)
		vc.assumeGlobal(p.And(p.Ne(r, p.Int(0)), p.Eq(p.App("dtype", SInt, r), tag)))
		return scalar(r)
	}
	name := "box$" + sanitize(typeKey(t))
	r := p.App(name, SInt, args...)
	if !vc.typed[r] {
		vc.typed[r] = true
		vc.assumeGlobal(p.Lt(r, p.Int(-3000000)))
		vc.assumeGlobal(p.Eq(p.App("dtype", SInt, r), tag))
		for i, a := range args {
			vc.assumeGlobal(p.Eq(p.App(fmt.Sprintf("un%s.%d", name, i), SInt, r), a))
		}
	}
	return scalar(r)
}

func (vc *VC) execTypeAssert(fr *frame, st *State, x *ssa.TypeAssert) Val {
	p := vc.P
	v := vc.asInt(vc.operand(fr, st, x.X))
	at := x.AssertedType
	var ok *Term
	var res Val
	if isInterface(at) {
		ok = p.And(p.Ne(v, p.Int(0)), p.App("implements$"+sanitize(typeKey(at)), SBool, p.App("dtype", SInt, v)))
		if types.Identical(at, x.X.Type()) || types.AssignableTo(x.X.Type(), at) {
			ok = p.Ne(v, p.Int(0))
		}
		res = scalar(v)
	} else {
		tag := p.Int(int64(vc.E.typeTag(at)))
		ok = p.And(p.Ne(v, p.Int(0)), p.Eq(p.App("dtype", SInt, v), tag))
		if _, isPtr := at.Underlying().(*types.Pointer); isPtr {
			tn := p.App("typednil$"+sanitize(typeKey(at)), SInt)
			res = scalar(p.Ite(p.Eq(v, tn), p.Int(0), v))
		} else {
			name := "box$" + sanitize(typeKey(at))
			switch classify(at) {
			case TKInt:
				res = scalar(p.App("un"+name+".0", SInt, v))
				vc.assumeType(st, res, at)
			case TKBool:
				res = scalar(p.Eq(p.App("un"+name+".0", SInt, v), p.Int(1)))
			case TKSlice:
				res = Val{K: VSlice, Arr: p.App("un"+name+".0", SInt, v), Off: p.App("un"+name+".1", SInt, v), Len: p.App("un"+name+".2", SInt, v), Cap: p.App("un"+name+".3", SInt, v)}
				vc.assumeType(st, res, at)
			default:
				res = vc.freshVal(st, at, "unboxed")
			}
		}
	}
	if x.CommaOk {
		zero := vc.zeroVal(st, at)
		val := vc.mergeVal([]*Term{ok, p.Not(ok)}, []Val{res, zero}, "typeassert")
		return Val{K: VStruct, Fs: []Val{val, scalar(ok)}}
	}
	vc.check(st, "typeassert", fr.prefix+shortLabel(typeKey(at)), "type assertion to "+typeKey(at)+" succeeds", ok, x.Pos())
	return res
}

// ---------------------------------------------------------------- maps

func mapKey(mt *types.Map) string { return "Map$" + typeKey(mt) }

func (vc *VC) mapValSort(mt *types.Map) (Sort, bool) {
	noteMapType(mt)
	switch classify(mt.Elem()) {
	case TKInt:
		return SArrIAI, true
	case TKBool:
		return SArrIAB, true
	}
	return "", false
}

func (vc *VC) execLookup(fr *frame, st *State, x *ssa.Lookup) Val {
	p := vc.P
	base := vc.operand(fr, st, x.X)
	key := vc.operand(fr, st, x.Index)
	mt, isMap := x.X.Type().Underlying().(*types.Map)
	if !isMap {
		// string index
		idx := vc.asInt(key)
		s := vc.asInt(base)
		vc.check(st, "bounds", "strindex", "string index in range", p.And(p.Le(p.Int(0), idx), p.Lt(idx, p.App("strlen", SInt, s))), x.Pos())
		v := scalar(p.App("strbyte", SInt, s, idx))
		vc.assumeGlobal(p.And(p.Le(p.Int(0), v.T), p.Le(v.T, p.Int(255))))
		return v
	}
	m := vc.asInt(base)
	k := vc.asInt(key)
	dom := p.Select(p.Select(vc.heapGet(st, mapKey(mt)+"#dom", SArrIAB), m), k)
	present := p.And(p.Ne(m, p.Int(0)), dom)
	var val Val
	if vs, ok := vc.mapValSort(mt); ok {
		raw := p.Select(p.Select(vc.heapGet(st, mapKey(mt)+"#val", vs), m), k)
		rv := scalar(raw)
		vc.assumeType(st, rv, mt.Elem())
		zero := vc.zeroVal(st, mt.Elem())
		val = scalar(p.Ite(present, raw, zero.T))
	} else {
		vc.note("map with unsupported value type %s: lookup result havocked", typeKey(mt.Elem()))
		val = vc.freshVal(st, mt.Elem(), "mapval")
	}
	if x.CommaOk {
		return Val{K: VStruct, Fs: []Val{val, scalar(present)}}
	}
	return val
}

func (vc *VC) execMapUpdate(fr *frame, st *State, x *ssa.MapUpdate) {
	p := vc.P
	m := vc.asInt(vc.operand(fr, st, x.Map))
	k := vc.asInt(vc.operand(fr, st, x.Key))
	v := vc.operand(fr, st, x.Value)
	mt := x.Map.Type().Underlying().(*types.Map)
	vc.check(st, "mapnil", "update", "assignment to entry in nil map", p.Ne(m, p.Int(0)), x.Pos())
	dk := mapKey(mt) + "#dom"
	dom := vc.heapGet(st, dk, SArrIAB)
	vc.heapSet(st, dk, p.Store(dom, m, p.Store(p.Select(dom, m), k, p.True())))
	vc.written[dk] = true
	if vs, ok := vc.mapValSort(mt); ok {
		vk := mapKey(mt) + "#val"
		vals := vc.heapGet(st, vk, vs)
		var nv *Term
		if vs == SArrIAB {
			nv = vc.asBool(v)
		} else {
			nv = vc.asInt(v)
		}
		vc.heapSet(st, vk, p.Store(vals, m, p.Store(p.Select(vals, m), k, nv)))
		vc.written[vk] = true
	} else {
		vc.note("map with unsupported value type %s: update not recorded", typeKey(mt.Elem()))
		vc.unsound("map value type " + typeKey(mt.Elem()))
	}
}

type rangeInfo struct {
	isMap bool
	mt    *types.Map
	m     *Term
	vis   string // heap key of the ghost visited set
}

func (vc *VC) execRange(fr *frame, st *State, x *ssa.Range) Val {
	p := vc.P
	base := vc.operand(fr, st, x.X)
	if mt, ok := x.X.Type().Underlying().(*types.Map); ok {
		key := fmt.Sprintf("$visited.%d.%s", fr.id, x.Name())
		vc.heapSet(st, key, p.ConstArr(SArrIB, p.False()))
		vc.ranges[x] = &rangeInfo{isMap: true, mt: mt, m: vc.asInt(base), vis: key}
		return scalar(p.Int(0))
	}
	vc.note("range over string in %s: iteration abstracted", fr.fn.Name())
	vc.ranges[x] = &rangeInfo{}
	return scalar(p.Int(0))
}

func (vc *VC) execNext(fr *frame, st *State, x *ssa.Next) Val {
	p := vc.P
	ri := vc.ranges[x.Iter.(*ssa.Range)]
	tu := x.Type().(*types.Tuple)
	ok := p.Fresh("next.ok", SBool)
	if ri == nil || !ri.isMap {
		return Val{K: VStruct, Fs: []Val{scalar(ok), vc.freshVal(st, tu.At(1).Type(), "next.k"), vc.freshVal(st, tu.At(2).Type(), "next.v")}}
	}
	k := p.Fresh("next.k", SInt)
	dom := p.Select(vc.heapGet(st, mapKey(ri.mt)+"#dom", SArrIAB), ri.m)
	vis := vc.heapGet(st, ri.vis, SArrIB)
	// a further key exists iff some key of the domain is unvisited; the chosen key is in the domain and unvisited
	vc.assume(st, p.Implies(ok, p.And(p.Select(dom, k), p.Not(p.Select(vis, k)))))
	vc.assume(st, p.Implies(ok, p.Ne(ri.m, p.Int(0)))) // ranging over a nil map yields nothing
	q := p.Var("q$"+x.Name(), SInt)
	vc.assume(st, p.Implies(p.Not(ok), p.Forall([]*Term{q}, p.Implies(p.Select(dom, q), p.Select(vis, q)))))
	vc.assume(st, p.Implies(p.Not(ok), p.Ne(ri.m, p.Int(-1))))
	vc.heapSet(st, ri.vis, p.Ite(ok, p.Store(vis, k, p.True()), vis))
	var val Val
	if vs, okk := vc.mapValSort(ri.mt); okk {
		raw := p.Select(p.Select(vc.heapGet(st, mapKey(ri.mt)+"#val", vs), ri.m), k)
		val = scalar(raw)
		vc.assumeType(st, val, ri.mt.Elem())
	} else {
		val = vc.freshVal(st, ri.mt.Elem(), "next.v")
	}
	kv := scalar(k)
	vc.assumeType(st, kv, ri.mt.Key())
	return Val{K: VStruct, Fs: []Val{scalar(ok), kv, val}}
}

// arrayBytes is the content of a[:] for an array value a (content id) of byte-array type at.
func (vc *VC) arrayBytes(content *Term, at *types.Array, t types.Type) *Term {
	p := vc.P
	elems := p.App("arrelems", SArrII, content)
	c := p.App("bcontent", SInt, elems, p.Int(0), p.Int(at.Len()))
	if !vc.typed[c] {
		vc.typed[c] = true
		vc.assumeGlobal(p.Eq(p.App("arrofbytes$"+typeKey(t.Underlying()), SInt, c), content))
		vc.assumeGlobal(p.Eq(p.App("strlen", SInt, c), p.Int(at.Len())))
	}
	return c
}

func isBasicInt(t types.Type) bool {
	b, ok := t.Underlying().(*types.Basic)
	return ok && b.Info()&(types.IsInteger|types.IsBoolean) != 0
}
