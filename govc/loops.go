package govc

import (
	"fmt"
	"go/token"
	"go/types"
	"sort"
	"strings"
	"sync"

	"golang.org/x/tools/go/ssa"
)

// modSet summarises what a region of code may write.
type modSet struct {
	cells map[*ssa.Alloc]bool
	heap  map[string]bool // heap map keys (prefix match for slice components)
	all   bool            // unknown effects: everything
	alloc bool
	cellParams bool       // writes through pointer parameters (which may point to caller locals)
	allocKeys  map[string]bool // heap maps in which objects allocated by this code may live (fresh entries)
	allocAll   bool
}

func newModSet() *modSet {
	return &modSet{cells: map[*ssa.Alloc]bool{}, heap: map[string]bool{}, allocKeys: map[string]bool{}}
}

func (m *modSet) addAll(o *modSet) {
	for k := range o.heap {
		m.heap[k] = true
	}
	if o.all {
		m.all = true
	}
	if o.alloc {
		m.alloc = true
	}
	if o.cellParams {
		m.cellParams = true
	}
	for k := range o.allocKeys {
		m.allocKeys[k] = true
	}
	if o.allocAll {
		m.allocAll = true
	}
}

// heapKeysOfType lists the heap map keys written when a value of type t is stored at a location with base key.
func heapKeysOfStore(base string, t types.Type, out map[string]bool) {
	switch classify(t) {
	case TKSlice:
		for _, c := range sliceComps {
			out[base+c.suffix] = true
		}
	case TKStruct:
		s, _ := structOf(t)
		for i := 0; i < s.NumFields(); i++ {
			heapKeysOfStore(fieldMapKey(t, i), s.Field(i).Type(), out)
		}
	default:
		out[base] = true
		if classify(t) == TKBool {
			boolKeyMu.Lock()
			boolKeys[base] = true
			boolKeyMu.Unlock()
		}
		if isRefType(t) {
			boolKeyMu.Lock()
			refKeys[base] = true
			boolKeyMu.Unlock()
		}
	}
}

var boolKeys = map[string]bool{}
var refKeys = map[string]bool{}

func isRefKey(k string) bool {
	boolKeyMu.Lock()
	defer boolKeyMu.Unlock()
	return refKeys[k]
}

func noteMapType(mt *types.Map) {
	if isRefType(mt.Elem()) {
		boolKeyMu.Lock()
		refKeys[mapKey(mt)+"#val"] = true
		boolKeyMu.Unlock()
	}
}
var boolKeyMu sync.Mutex

func (vc *VC) addrKeys(v ssa.Value, out *modSet) {
	switch a := v.(type) {
	case *ssa.Alloc:
		t := a.Type().Underlying().(*types.Pointer).Elem()
		if _, ok := structOf(t); ok {
			heapKeysOfStore("", t, out.heap)
			return
		}
		out.cells[a] = true
		if a.Heap && allocEscapes(a) {
			heapKeysOfStore(memMapKey(t), t, out.heap)
		}
	case *ssa.FieldAddr:
		stT := a.X.Type().Underlying().(*types.Pointer).Elem()
		if s, ok := structOf(stT); ok {
			heapKeysOfStore(fieldMapKey(stT, a.Field), s.Field(a.Field).Type(), out.heap)
		} else {
			out.all = true
		}
	case *ssa.IndexAddr:
		switch bt := a.X.Type().Underlying().(type) {
		case *types.Slice:
			heapKeysOfStore(elemMapKey(bt.Elem()), bt.Elem(), out.heap)
		case *types.Pointer:
			vc.addrKeys(a.X, out)
		}
	case *ssa.Global:
		t := a.Type().(*types.Pointer).Elem()
		heapKeysOfStore(globalKey(a), t, out.heap)
	default:
		// pointer value: pointee type decides
		if pt, ok := v.Type().Underlying().(*types.Pointer); ok {
			t := pt.Elem()
			if _, ok := structOf(t); ok {
				heapKeysOfStore("", t, out.heap)
			} else {
				heapKeysOfStore(memMapKey(t), t, out.heap)
			}
			// a pointer parameter of an inlined function may also be a local cell of the caller:
			if p, ok := v.(*ssa.Parameter); ok {
				_ = p
				out.cellParams = true
			}
		}
	}
}

// blockMods computes the writes of a set of blocks (syntactic, callee summaries included).
func (vc *VC) blockMods(fn *ssa.Function, blocks map[*ssa.BasicBlock]bool, seen map[*ssa.Function]bool) *modSet {
	ms := newModSet()
	for _, b := range fn.Blocks {
		if blocks != nil && !blocks[b] {
			continue
		}
		for _, ins := range b.Instrs {
			switch x := ins.(type) {
			case *ssa.Store:
				vc.addrKeys(x.Addr, ms)
			case *ssa.MapUpdate:
				mt := x.Map.Type().Underlying().(*types.Map)
				ms.heap[mapKey(mt)+"#dom"] = true
				ms.heap[mapKey(mt)+"#val"] = true
			case *ssa.Alloc:
				ms.alloc = true
				t := x.Type().Underlying().(*types.Pointer).Elem()
				if _, ok := structOf(t); ok {
					heapKeysOfStore("", t, ms.heap)
					heapKeysOfStore("", t, ms.allocKeys)
				} else {
					ms.cells[x] = true
					if at, isArr := t.Underlying().(*types.Array); isArr && !isBasicInt(at.Elem()) {
						heapKeysOfStore(elemMapKey(at.Elem()), at.Elem(), ms.heap)
						heapKeysOfStore(elemMapKey(at.Elem()), at.Elem(), ms.allocKeys)
					} else if x.Heap {
						heapKeysOfStore(memMapKey(t), t, ms.allocKeys)
					}
				}
			case *ssa.MakeSlice:
				ms.alloc = true
				et := x.Type().Underlying().(*types.Slice).Elem()
				heapKeysOfStore(elemMapKey(et), et, ms.heap)
				heapKeysOfStore(elemMapKey(et), et, ms.allocKeys)
			case *ssa.MakeMap:
				ms.alloc = true
				mt := x.Type().Underlying().(*types.Map)
				ms.heap[mapKey(mt)+"#dom"] = true
				ms.allocKeys[mapKey(mt)+"#dom"] = true
				ms.allocKeys[mapKey(mt)+"#val"] = true
			case *ssa.MakeClosure, *ssa.MakeInterface, *ssa.Slice, *ssa.Convert:
				ms.alloc = true
				ms.heap["E$uint8"] = true
				ms.allocKeys["E$uint8"] = true
			case *ssa.Range:
				ms.heap["$visited"] = true
			case *ssa.Next:
				ms.heap["$visited"] = true
			case ssa.CallInstruction:
				if _, isGo := ins.(*ssa.Go); isGo {
					continue
				}
				vc.callMods(fn, x, ms, seen)
			}
		}
	}
	return ms
}

func (vc *VC) callMods(caller *ssa.Function, call ssa.CallInstruction, ms *modSet, seen map[*ssa.Function]bool) {
	c := call.Common()
	ms.alloc = true
	if b, ok := c.Value.(*ssa.Builtin); ok {
		switch b.Name() {
		case "append":
			st := c.Args[0].Type().Underlying().(*types.Slice)
			heapKeysOfStore(elemMapKey(st.Elem()), st.Elem(), ms.heap)
			heapKeysOfStore(elemMapKey(st.Elem()), st.Elem(), ms.allocKeys)
			if _, isStruct := structOf(st.Elem()); isStruct {
				heapKeysOfStore("", st.Elem(), ms.allocKeys)
			}
		case "copy":
			if st, ok := c.Args[0].Type().Underlying().(*types.Slice); ok {
				heapKeysOfStore(elemMapKey(st.Elem()), st.Elem(), ms.heap)
				// copy into a view of a local array writes the cell
				if sl, ok := c.Args[0].(*ssa.Slice); ok {
					if a, ok := sl.X.(*ssa.Alloc); ok {
						ms.cells[a] = true
					}
				}
			}
		case "delete":
			mt := c.Args[0].Type().Underlying().(*types.Map)
			ms.heap[mapKey(mt)+"#dom"] = true
		}
		return
	}
	if c.IsInvoke() {
		key := vc.E.ifaceMethodKey(c)
		if rk := roleKey(key, c.Value); rk != "" && vc.E.DB.Contracts[rk] != nil {
			key = rk
		}
		if ct := vc.E.DB.Contracts[key]; ct != nil {
			vc.contractMods(ct, ms)
			return
		}
		if vc.E.isPureCall(key, nil) {
			return
		}
		vc.unknownCallMods(c, ms)
		return
	}
	callee := c.StaticCallee()
	if callee == nil {
		// call of a function value: a closure made in this function is scanned, anything else is unknown
		if mc, ok := c.Value.(*ssa.MakeClosure); ok {
			callee = mc.Fn.(*ssa.Function)
		} else if nt, isNamed := c.Value.Type().(*types.Named); isNamed && nt.Obj().Pkg() != nil && vc.E.DB.Contracts[nt.Obj().Pkg().Path()+".("+nt.Obj().Name()+").call"] != nil {
			vc.contractMods(vc.E.DB.Contracts[nt.Obj().Pkg().Path()+".("+nt.Obj().Name()+").call"], ms)
			return
		} else {
			// look through a local cell holding a closure: give up precisely
			vc.unknownCallMods(c, ms)
			return
		}
	}
	if o := callee.Origin(); o != nil {
		callee = o
	}
	key := FuncKey(callee)
	if vc.E.intrinsic(key) != nil {
		vc.E.intrinsic(key).mods(vc, c, ms)
		ms.allocKeys["M$uint256.Int"] = true
		ms.allocKeys["E$uint8"] = true
		return
	}
	if ct := vc.E.DB.Contracts[key]; ct != nil && !ct.Inline {
		vc.contractMods(ct, ms)
		return
	}
	if vc.E.isPureCall(key, callee) {
		return
	}
	if len(callee.Blocks) > 0 && vc.E.inRepo(pkgOf(callee)) {
		if seen[callee] {
			ms.all = true
			return
		}
		seen[callee] = true
		sub := vc.blockMods(callee, nil, seen)
		delete(seen, callee)
		ms.addAll(sub)
		if sub.cellParams {
			// callee writes through pointer parameters: the cells whose address we pass may change
			for _, a := range c.Args {
				vc.markCellArg(a, ms)
			}
		}
		// anonymous functions called by the callee that were passed in are scanned where they are made
		for _, a := range c.Args {
			if mc, ok := a.(*ssa.MakeClosure); ok {
				f := mc.Fn.(*ssa.Function)
				if !seen[f] {
					seen[f] = true
					cm := vc.blockMods(f, nil, seen)
					delete(seen, f)
					ms.addAll(cm)
					// cells of the enclosing function written by the closure through its free variables
					for i, fv := range f.FreeVars {
						if vc.freeVarWritten(f, fv) {
							if al, ok := mc.Bindings[i].(*ssa.Alloc); ok {
								ms.cells[al] = true
							}
						}
					}
				}
			}
		}
		return
	}
	vc.unknownCallMods(c, ms)
	for _, a := range c.Args {
		vc.markCellArg(a, ms)
	}
}

func (vc *VC) markCellArg(a ssa.Value, ms *modSet) {
	switch x := a.(type) {
	case *ssa.Alloc:
		ms.cells[x] = true
	case *ssa.IndexAddr:
		vc.markCellArg(x.X, ms)
	case *ssa.Slice:
		vc.markCellArg(x.X, ms)
	}
}

func (vc *VC) freeVarWritten(f *ssa.Function, fv *ssa.FreeVar) bool {
	refs := fv.Referrers()
	if refs == nil {
		return false
	}
	for _, r := range *refs {
		switch u := r.(type) {
		case *ssa.Store:
			if u.Addr == fv {
				return true
			}
		case *ssa.UnOp, *ssa.DebugRef:
		default:
			return true
		}
	}
	return false
}

func pkgOf(fn *ssa.Function) *types.Package {
	if fn.Pkg != nil {
		return fn.Pkg.Pkg
	}
	if o := fn.Origin(); o != nil && o.Pkg != nil {
		return o.Pkg.Pkg
	}
	if fn.Parent() != nil {
		return pkgOf(fn.Parent())
	}
	if obj := fn.Object(); obj != nil {
		return obj.Pkg()
	}
	return nil
}

// contractMods turns a modifies clause into heap keys (whole maps: coarse but sound).
func (vc *VC) contractMods(ct *Contract, ms *modSet) {
	for _, k := range vc.E.modKeys(ct) {
		if k == "*" {
			ms.all = true
			continue
		}
		ms.heap[k] = true
	}
	if len(ct.Allocates) > 0 {
		ms.alloc = true
	}
	for _, tn := range ct.Allocates {
		if t, ok := vc.E.resolveTypeName(ct.Pkg, tn); ok {
			if _, isStruct := structOf(t); isStruct {
				heapKeysOfStore("", t, ms.allocKeys)
			} else if sl, isSlice := t.Underlying().(*types.Slice); isSlice {
				heapKeysOfStore(elemMapKey(sl.Elem()), sl.Elem(), ms.allocKeys)
			} else if mt, isMap := t.Underlying().(*types.Map); isMap {
				ms.allocKeys[mapKey(mt)+"#dom"] = true
				ms.allocKeys[mapKey(mt)+"#val"] = true
			} else {
				heapKeysOfStore(memMapKey(t), t, ms.allocKeys)
			}
		}
	}
	// results that are references may be fresh objects of their type even without an allocates clause
	ms.allocKeys["M$uint256.Int"] = true
}

// unknownCallMods: a call with neither contract nor body. Everything type-reachable from its
// pointer arguments may change; for calls into repository interfaces, everything.
func (vc *VC) unknownCallMods(c *ssa.CallCommon, ms *modSet) {
	ms.allocAll = true
	seen := map[types.Type]bool{}
	args := append([]ssa.Value{}, c.Args...)
	if c.IsInvoke() {
		if n, ok := c.Value.Type().(*types.Named); ok && vc.E.inRepo(n.Obj().Pkg()) {
			ms.all = true
			return
		}
		args = append(args, c.Value)
	}
	for _, a := range args {
		vc.reachableKeys(a.Type(), ms.heap, seen, 0)
	}
}

func (vc *VC) reachableKeys(t types.Type, out map[string]bool, seen map[types.Type]bool, depth int) {
	if seen[t] || depth > 6 {
		return
	}
	seen[t] = true
	if isOpaqueNamed(t) {
		return
	}
	switch u := t.Underlying().(type) {
	case *types.Pointer:
		if s, ok := structOf(u.Elem()); ok {
			for i := 0; i < s.NumFields(); i++ {
				heapKeysOfStore(fieldMapKey(u.Elem(), i), s.Field(i).Type(), out)
				vc.reachableKeys(s.Field(i).Type(), out, seen, depth+1)
			}
		} else {
			heapKeysOfStore(memMapKey(u.Elem()), u.Elem(), out)
			vc.reachableKeys(u.Elem(), out, seen, depth+1)
		}
	case *types.Slice:
		heapKeysOfStore(elemMapKey(u.Elem()), u.Elem(), out)
		vc.reachableKeys(u.Elem(), out, seen, depth+1)
	case *types.Struct:
		for i := 0; i < u.NumFields(); i++ {
			vc.reachableKeys(u.Field(i).Type(), out, seen, depth+1)
		}
	case *types.Map:
		out[mapKey(u)+"#dom"] = true
		out[mapKey(u)+"#val"] = true
		vc.reachableKeys(u.Elem(), out, seen, depth+1)
	case *types.Interface:
		// an interface argument may hold any repository object; without a contract this is everything
		if u.NumMethods() > 0 {
			out["*iface"] = true
		}
	}
}

// havocMods replaces everything in ms by unconstrained values in st.
func (vc *VC) havocMods(fr *frame, st *State, ms *modSet, what string) {
	p := vc.P
	if ms.all || ms.heap["*iface"] {
		vc.havocAllHeap(st, what)
	} else {
		keys := make([]string, 0, len(ms.heap))
		for k := range ms.heap {
			keys = append(keys, k)
		}
		sort.Strings(keys)
		for _, k := range keys {
			if k == "$visited" {
				for hk := range st.heap {
					if strings.HasPrefix(hk, "$visited.") {
						st.heap[hk] = p.Fresh(hk, SArrIB)
					}
				}
				continue
			}
			if s, ok := vc.heapSort[k]; ok {
				st.heap[k] = p.Fresh(k+"@"+what, s)
			} else {
				// never touched so far: the first access after the havoc must not see the entry value
				st.untouched = appendUnique(st.untouched, k)
			}
		}
	}
	if ms.alloc || ms.all {
		a := vc.allocCounter(st)
		na := p.Fresh("$A@"+what, SInt)
		vc.assume(st, p.Le(a, na))
		st.heap[allocKey] = na
	}
}

func appendUnique(xs []string, s string) []string {
	for _, x := range xs {
		if x == s {
			return xs
		}
	}
	return append(xs, s)
}

func (vc *VC) havocAllHeap(st *State, what string) {
	p := vc.P
	vc.epochSeq++
	st.epoch = fmt.Sprintf("e%d", vc.epochSeq)
	for k := range st.heap {
		if k == allocKey {
			continue
		}
		if vc.stableKey(k) {
			continue
		}
		st.heap[k] = p.Fresh(k+"@"+what, st.heap[k].S)
	}
	st.untouched = nil
}

func (vc *VC) stableKey(k string) bool { return false }

// enterLoop asserts the invariants on entry, havocs the loop's modified set and assumes the invariants.
func (vc *VC) enterLoop(fr *frame, li *loopInfo, st *State) *State {
	p := vc.P
	invs, auto := vc.loopInvariants(fr, li)
	vc.curLoopA = vc.allocCounter(st)
	defer func() { vc.curLoopA = nil }()
	for _, cl := range invs {
		g := vc.evalClause(fr, st, cl, nil)
		vc.oblige(st, "inv.entry", fmt.Sprintf("%sloop%d.%d", fr.prefix, li.ordinal, cl.Idx), "loop invariant holds on entry: "+cl.Text, g, cl.Tags, li.head.Instrs[0].Pos(), false)
	}
	for _, a := range auto {
		g := a.eval(st)
		// auto invariants are checked like written ones (cheap), so they are not assumptions
		vc.oblige(st, "inv.entry", fmt.Sprintf("%sloop%d.auto.%s", fr.prefix, li.ordinal, a.name), "inferred loop invariant holds on entry: "+a.text, g, nil, token.NoPos, false)
	}
	ms := vc.blockMods(fr.fn, li.body, map[*ssa.Function]bool{fr.fn: true})
	st = st.clone()
	what := fmt.Sprintf("loop%d", li.ordinal)
	li.aEntry = vc.allocCounter(st)
	var entryLocs []loc
	lm, hasLM := vc.loopModClauses(fr, li)
	if hasLM {
		c := vc.frameCtx(fr, st)
		c.useLocals = true
		for _, cl := range lm {
			entryLocs = append(entryLocs, vc.evalLoc(c, cl.Expr, fr.contract)...)
		}
	}
	if ms.alloc || ms.all || ms.allocAll {
		// earlier iterations may have allocated: the references held by the loop-modified locals (made arbitrary
		// below) are bounded by the allocation counter at the head, not by the counter at loop entry
		a := vc.allocCounter(st)
		na := p.Fresh("$A@"+what+".head", SInt)
		vc.assume(st, p.Le(a, na))
		st.heap[allocKey] = na
	}
	for a := range ms.cells {
		k := cellKey{a, fr.id}
		if _, ok := st.cells[k]; ok || a.Parent() == fr.fn {
			t := a.Type().Underlying().(*types.Pointer).Elem()
			if _, isStruct := structOf(t); isStruct {
				continue
			}
			st.cells[k] = vc.freshVal(st, t, a.Comment+"@"+what)
		}
	}
	if ms.cellParams {
		vc.note("loop %d of %s writes through pointer parameters", li.ordinal, fr.fn.Name())
	}
	if hasLM {
		// precise loop frame: only the listed locations are havocked; the frame is checked at the back edge
		locs := entryLocs
		// Objects allocated by earlier iterations have arbitrary contents: every map the body may write
		// agrees with the loop-entry state only on references allocated before the loop (and outside locs).
		aEntry := li.aEntry
		entry := st.clone()
		vc.havocLocs(st, locs, what)
		if ms.alloc || ms.all {
			byKey := map[string][]loc{}
			for _, l := range locs {
				byKey[l.key] = append(byKey[l.key], l)
			}
			var keys []string
			if ms.all {
				for k := range st.heap {
					keys = append(keys, k)
				}
			} else {
				for k := range ms.heap {
					keys = append(keys, k)
				}
			}
			sort.Strings(keys)
			for _, k := range keys {
				if k == allocKey || strings.HasPrefix(k, "$visited") || k == "$visited" {
					continue
				}
				srt, known := vc.heapSort[k]
				if !known {
					if s, ok := vc.guessKeySort(k); ok {
						vc.heapInit(k, &s)
						srt, known = s, true
					}
				}
				if !known || !strings.HasPrefix(string(srt), "(Array") || strings.HasPrefix(k, "ghost$") {
					continue
				}
				if !ms.all && !ms.allocAll && !ms.allocKeys[k] {
					continue // no object of this map's type is allocated in the loop: the precise havoc above is exact
				}
				cur := vc.heapGet(st, k, srt) // already havocked at locs
				nm := vc.P.Fresh(k+"@"+what, srt)
				vc.qSeq++
				r := vc.P.Var(fmt.Sprintf("r?%d", vc.qSeq), SInt)
				vc.assume(st, vc.P.Forall([]*Term{r}, vc.P.Implies(vc.P.Le(r, aEntry), vc.P.Eq(vc.P.Select(nm, r), vc.P.Select(cur, r)))))
				st.heap[k] = nm
			}
		}
		_ = entry
		a := vc.allocCounter(st)
		na := vc.P.Fresh("$A@"+what, SInt)
		vc.assume(st, vc.P.Le(a, na))
		st.heap[allocKey] = na
		for hk := range st.heap {
			if strings.HasPrefix(hk, "$visited.") {
				st.heap[hk] = vc.P.Fresh(hk, SArrIB)
			}
		}
		li.locs = locs
		li.precise = true
		li.modClauses = lm
	} else {
		vc.havocMods(fr, st, ms, what)
	}
	vc.flushTyping(st)
	// values of phis at the head were already made fresh
	if fr.contract != nil {
		for _, cl := range fr.contract.LoopAssume[li.ordinal] {
			vc.assume(st, vc.evalClause(fr, st, cl, nil))
		}
	}
	for _, cl := range invs {
		vc.assume(st, vc.evalClause(fr, st, cl, nil))
	}
	for _, a := range auto {
		vc.assume(st, a.eval(st))
	}
	if li.precise {
		// the locations the body may write in this iteration (clause evaluated at the head) must be among
		// those havocked at loop entry or belong to objects allocated since loop entry
		c := vc.frameCtx(fr, st)
		c.useLocals = true
		li.headLocs = nil
		for _, cl := range li.modClauses {
			li.headLocs = append(li.headLocs, vc.evalLoc(c, cl.Expr, fr.contract)...)
		}
		for n, hl := range li.headLocs {
			if hl.all || len(hl.idx) == 0 {
				continue
			}
			alts := []*Term{p.Gt(hl.idx[0], li.aEntry)}
			for _, el := range li.locs {
				if el.key == hl.key {
					if len(el.idx) == 0 {
						alts = append(alts, p.True())
					} else {
						alts = append(alts, p.Eq(hl.idx[0], el.idx[0]))
					}
				}
			}
			vc.oblige(st, "loopframe", fmt.Sprintf("%sloop%d.stable.%d", fr.prefix, li.ordinal, n), "loop frame: the locations named by the loop's modifies clause stay within those released at loop entry (or are fresh): "+hl.key, p.Or(alts...), nil, token.NoPos, false)
		}
	}
	return st
}

func (vc *VC) loopModClauses(fr *frame, li *loopInfo) ([]*Clause, bool) {
	if fr.contract == nil {
		return nil, false
	}
	lm, ok := fr.contract.LoopMod[li.ordinal]
	return lm, ok
}

// loopFrame: at a back edge of a loop with a modifies clause, every heap map agrees with the loop-head
// state except at the listed locations and at objects allocated since the head.
func (vc *VC) loopFrame(fr *frame, li *loopInfo, st *State, head *State) {
	p := vc.P
	byKey := map[string][]loc{}
	for _, l := range li.headLocs {
		if l.all {
			return
		}
		byKey[l.key] = append(byKey[l.key], l)
	}
	aHead := vc.allocCounter(head)
	keys := make([]string, 0, len(st.heap))
	for k := range st.heap {
		keys = append(keys, k)
	}
	sort.Strings(keys)
	for _, k := range keys {
		if k == allocKey || strings.HasPrefix(k, "$visited") {
			continue
		}
		cur := st.heap[k]
		old, ok := head.heap[k]
		if !ok {
			old = vc.heapDefault(head, k, cur.S)
			head.heap[k] = old
		}
		if cur == old {
			continue
		}
		ls := byKey[k]
		whole := false
		for _, l := range ls {
			if len(l.idx) == 0 {
				whole = true
			}
		}
		if whole {
			continue
		}
		var goal *Term
		if !strings.HasPrefix(string(cur.S), "(Array") {
			goal = p.Eq(cur, old)
		} else {
			vc.qSeq++
			r := p.Var(fmt.Sprintf("r?%d", vc.qSeq), SInt)
			ex := []*Term{p.Gt(r, aHead), p.Eq(r, p.Int(0)), p.And(p.Lt(r, p.Int(0)), p.Gt(p.App("rootof", SInt, r), aHead))}
			for _, l := range ls {
				ex = append(ex, p.Eq(r, l.idx[0]))
			}
			goal = p.Forall([]*Term{r}, p.Or(append(ex, p.Eq(p.Select(cur, r), p.Select(old, r)))...))
		}
		vc.oblige(st, "loopframe", fmt.Sprintf("%sloop%d.%s", fr.prefix, li.ordinal, sanitize(k)), "loop frame: "+k+" changes only at the locations of the loop's modifies clause", goal, nil, token.NoPos, false)
	}
}

func (vc *VC) closeLoop(fr *frame, li *loopInfo, st *State, head *State) {
	if st.pc.IsFalse() {
		return
	}
	if li.precise && head != nil {
		vc.loopFrame(fr, li, st, head)
	}
	invs, auto := vc.loopInvariants(fr, li)
	vc.curLoopA = li.aEntry
	defer func() { vc.curLoopA = nil }()
	if fr.contract != nil {
		// `loop k: assumes` holds at every arrival at the head, the one through the back edge included
		for _, cl := range fr.contract.LoopAssume[li.ordinal] {
			vc.assume(st, vc.evalClause(fr, st, cl, nil))
		}
	}
	for _, cl := range invs {
		g := vc.evalClause(fr, st, cl, nil)
		vc.oblige(st, "inv.preserve", fmt.Sprintf("%sloop%d.%d", fr.prefix, li.ordinal, cl.Idx), "loop invariant is preserved: "+cl.Text, g, cl.Tags, li.head.Instrs[0].Pos(), false)
		// assert-then-assume: a later invariant of the same loop is proved at the end of the body knowing the
		// earlier ones there (each has its own obligation just above)
		vc.assume(st, g)
	}
	for _, a := range auto {
		vc.oblige(st, "inv.preserve", fmt.Sprintf("%sloop%d.auto.%s", fr.prefix, li.ordinal, a.name), "inferred loop invariant is preserved: "+a.text, a.eval(st), nil, token.NoPos, false)
	}
	if fr.contract != nil {
		if d := fr.contract.LoopDec[li.ordinal]; d != nil && head != nil {
			before := vc.evalExprInt(fr, head, d.Expr)
			after := vc.evalExprInt(fr, st, d.Expr)
			vc.oblige(st, "decreases", fmt.Sprintf("%sloop%d", fr.prefix, li.ordinal), "loop variant decreases and is bounded below: "+d.Text,
				vc.P.And(vc.P.Lt(after, before), vc.P.Le(vc.P.Int(0), before)), d.Tags, token.NoPos, false)
		}
	}
}

type autoInv struct {
	name string
	text string
	eval func(st *State) *Term
}

// loopInvariants returns the written invariants of a loop and the inferred ones (range index bounds).
func (vc *VC) loopInvariants(fr *frame, li *loopInfo) ([]*Clause, []autoInv) {
	var invs []*Clause
	if fr.contract != nil {
		invs = fr.contract.LoopInv[li.ordinal]
	}
	var auto []autoInv
	// pattern: head block of a range-over-slice loop
	//   t11 = *ri ; t12 = t11 + 1 ; *ri = t12 ; t13 = t12 < n ; if t13 ...
	h := li.head
	for _, ins := range h.Instrs {
		st, ok := ins.(*ssa.Store)
		if !ok {
			continue
		}
		al, ok := st.Addr.(*ssa.Alloc)
		if !ok || al.Comment != "rangeindex" {
			continue
		}
		add, ok := st.Val.(*ssa.BinOp)
		if !ok || add.Op != token.ADD {
			continue
		}
		// find the comparison
		var n ssa.Value
		for _, j := range h.Instrs {
			if c, ok := j.(*ssa.BinOp); ok && c.Op == token.LSS && c.X == add {
				n = c.Y
			}
		}
		if n == nil {
			continue
		}
		alc, nv := al, n
		auto = append(auto, autoInv{
			name: "rangeindex",
			text: "-1 <= rangeindex < len",
			eval: func(s *State) *Term {
				p := vc.P
				ri := vc.asInt(s.cells[cellKey{alc, fr.id}])
				ln := vc.asInt(vc.operand(fr, s, nv))
				return p.And(p.Le(p.Int(-1), ri), p.Or(p.Lt(ri, ln), p.Eq(ri, p.Int(-1))))
			},
		})
	}
	return invs, auto
}
