package govc

import (
	"fmt"
	"go/token"
	"go/types"
	"sort"
	"strings"
	"sync"

	"golang.org/x/tools/go/ssa"
)

// FuncResult is what VC generation produced for one function under contract.
type FuncResult struct {
	Key        string
	Obls       []*Obligation
	Hyps       []*Term
	Notes      []string
	Unsound    []string
	SpecErrors []string
	Instrs     int
	Inlined    int
	Calls      int
	UsedContracts []string
	Pool       *TermPool
	Trusted    bool
	symMemo    map[*Term]map[string]bool
	symMu      sync.Mutex
}

type VerifyOpts struct {
	Safety bool // generate safety obligations (nil, bounds, type assertion, division, explicit panic)
	Arith  bool // overflow obligations
}

// VerifyFunction generates the obligations of one function against its contract.
func (e *Engine) VerifyFunction(key string, opts VerifyOpts) (*FuncResult, error) {
	fn := e.funcs[key]
	ct := e.DB.Contracts[key]
	if fn == nil {
		return nil, fmt.Errorf("binding.%s: no such function in the working tree", key)
	}
	if len(fn.Blocks) == 0 {
		return nil, fmt.Errorf("binding.%s: function has no body", key)
	}
	vc := &VC{E: e, P: NewPool(), Fn: fn, C: ct, Key: shortKey(e, key), heap0: map[string]*Term{}, heapSort: map[string]Sort{},
		written: map[string]bool{}, typed: map[*Term]bool{}, subSeen: map[*Term]bool{}, counters: map[string]int{},
		refAx: map[string]bool{}, allocTypes: map[string]bool{}, ranges: map[*ssa.Range]*rangeInfo{}, usedContracts: map[string]bool{}}
	vc.safety = opts.Safety || (ct != nil && ct.NoPanic)
	vc.arith = opts.Arith || (ct != nil && ct.Arith)
	p := vc.P
	st := &State{pc: p.True(), cells: map[cellKey]Val{}, heap: map[string]*Term{}}
	// the allocation counter at entry
	a0 := vc.allocCounter(st)
	vc.assumeGlobal(p.Le(p.Int(0), a0))
	// parameters: arbitrary values of their types
	var args []Val
	for _, prm := range fn.Params {
		v := vc.freshVal(st, prm.Type(), "in$"+prm.Name())
		args = append(args, v)
		vc.assumeParamShape(st, v, prm.Type())
	}
	// a closure verified on its own: each captured variable is an arbitrary location holding an arbitrary value
	var freeVars []Val
	for _, fv := range fn.FreeVars {
		loc := p.Fresh("cap$"+fv.Name(), SInt)
		vc.assumeGlobal(p.Lt(p.Int(0), loc))
		vc.assume(st, p.Le(loc, vc.allocCounter(st)))
		pt := fv.Type().Underlying().(*types.Pointer).Elem()
		if _, isStruct := structOf(pt); isStruct {
			freeVars = append(freeVars, scalar(loc))
		} else {
			freeVars = append(freeVars, Val{K: VAddr, A: &Addr{K: AMem, Ref: loc, ET: pt}})
		}
	}
	vc.closureVars = map[string]EV{}
	for i, fv := range fn.FreeVars {
		pt := fv.Type().Underlying().(*types.Pointer).Elem()
		if freeVars[i].K == VAddr {
			vc.closureVars[fv.Name()] = EV{V: vc.loadMem(st, freeVars[i].A.Ref, pt), T: pt, cell: freeVars[i].A.Ref}
		} else {
			vc.closureVars[fv.Name()] = EV{V: freeVars[i], T: pt}
		}
	}
	if ct != nil {
		for _, cl := range ct.Musts {
			k := "ghost$must:" + cl.Label
			st.heap[k] = p.False()
			vc.heapSort[k] = SBool
		}
	}
	vc.entry = st.clone()
	vc.assumeAxioms(st)
	if ct != nil {
		pre := vc.contractCtx(st, nil, ct, fn, fn.Signature, nil, args)
		for _, cl := range ct.Requires {
			vc.assume(st, pre.bool(pre.eval(cl.Expr), cl.Expr))
		}
		for _, cl := range ct.ObjInv {
			vc.assume(st, pre.bool(pre.eval(cl.Expr), cl.Expr))
		}
		for _, cl := range ct.Assumes {
			vc.assume(st, pre.bool(pre.eval(cl.Expr), cl.Expr))
		}
	}
	// check the contract's loop ordinals exist
	if ct != nil {
		loops := findLoops(fn)
		for id := range ct.LoopInv {
			if id >= len(loops) {
				vc.oblige(st, "binding", fmt.Sprintf("loop%d", id), fmt.Sprintf("contract names loop %d but the function has %d loops", id, len(loops)), p.False(), nil, fn.Pos(), false)
			}
		}
	}
	// smoke: hypotheses so far must be satisfiable (checked by the caller of VerifyFunction)
	exit, results, fr := vc.execFunction(fn, args, freeVars, st, 0, "")
	if exit != nil && ct != nil {
		var res Val
		rt := fn.Signature.Results()
		if rt.Len() == 1 {
			res = results[0]
		} else {
			res = Val{K: VStruct, Fs: results}
		}
		post := vc.contractCtx(exit, vc.entry, ct, fn, fn.Signature, nil, args)
		post.fr = nil
		if rt.Len() == 1 {
			bindResults(post, res, rt.At(0).Type())
		} else {
			bindResults(post, res, rt)
		}
		for _, cl := range ct.Ensures {
			g := post.bool(post.eval(cl.Expr), cl.Expr)
			vc.oblige(exit, "post", fmt.Sprint(cl.Idx), "postcondition: "+cl.Text, g, cl.Tags, fn.Pos(), false)
		}
		for _, cl := range ct.Musts {
			done, ok := exit.heap["ghost$must:"+cl.Label]
			if !ok {
				done = vc.P.False()
			}
			cond := post.bool(post.eval(cl.Expr), cl.Expr)
			vc.oblige(exit, "must", cl.Label+"."+fmt.Sprint(cl.Idx), "the step at "+cl.Label+" is executed on every path to an exit with: "+cl.Text, vc.P.Implies(cond, done), cl.Tags, fn.Pos(), false)
		}
		for _, cl := range ct.ObjInv {
			inv := vc.contractCtx(exit, vc.entry, ct, fn, fn.Signature, nil, args)
			g := inv.bool(inv.eval(cl.Expr), cl.Expr)
			vc.oblige(exit, "objinv", fmt.Sprint(cl.Idx), "object invariant re-established: "+cl.Text, g, cl.Tags, fn.Pos(), false)
		}
		vc.frameObligations(exit, ct, fn, args)
	}
	_ = fr
	r := &FuncResult{Key: key, Obls: vc.obls, Hyps: vc.hyps, Notes: vc.notes, Unsound: vc.unsounds, SpecErrors: vc.specErrs,
		Instrs: vc.stats.instrs, Inlined: vc.stats.inlined, Calls: vc.stats.calls, Pool: vc.P}
	for k := range vc.usedContracts {
		r.UsedContracts = append(r.UsedContracts, k)
	}
	sort.Strings(r.UsedContracts)
	return r, nil
}

func shortKey(e *Engine, key string) string {
	return strings.TrimPrefix(key, e.RepoMod+"/")
}

// assumeParamShape: parameters that are pointers to structs are roots (not interior pointers) or nil.
func (vc *VC) assumeParamShape(st *State, v Val, t types.Type) {
	p := vc.P
	if v.K == VScalar && v.T.S == SInt {
		if _, ok := t.Underlying().(*types.Pointer); ok {
			vc.assumeGlobal(p.Le(p.Int(0), v.T))
		}
	}
}

// frameObligations: every heap map the function may have written must agree with the entry state outside
// the locations of the modifies clause (objects allocated by the function itself are exempt).
func (vc *VC) frameObligations(exit *State, ct *Contract, fn *ssa.Function, args []Val) {
	// a contract without a modifies clause promises to modify nothing
	p := vc.P
	pre := vc.contractCtx(vc.entry, nil, ct, fn, fn.Signature, nil, args)
	locs := vc.evalModifies(pre, ct)
	byKey := map[string][]loc{}
	everything := false
	for _, l := range locs {
		if l.all {
			everything = true
			continue
		}
		byKey[l.key] = append(byKey[l.key], l)
	}
	preservedKeys := map[string]bool{}
	if everything {
		for _, cl := range ct.Preserves {
			for _, l := range vc.evalLoc(pre, cl.Expr, ct) {
				if !l.all && len(l.idx) == 0 {
					preservedKeys[l.key] = true
				}
			}
		}
		if len(preservedKeys) == 0 {
			return
		}
	}
	a0 := vc.allocCounter(vc.entry)
	keys := make([]string, 0, len(exit.heap))
	for k := range exit.heap {
		keys = append(keys, k)
	}
	sort.Strings(keys)
	n := 0
	for _, k := range keys {
		if k == allocKey || strings.HasPrefix(k, "$visited") {
			continue
		}
		cur := exit.heap[k]
		old, ok := vc.heap0[k]
		if !ok || cur == old {
			continue
		}
		if everything && !preservedKeys[k] {
			continue
		}
		ls := byKey[k]
		if everything {
			ls = nil
		}
		whole := false
		for _, l := range ls {
			if len(l.idx) == 0 {
				whole = true
			}
		}
		if whole {
			continue
		}
		isArr := strings.HasPrefix(string(cur.S), "(Array")
		var goal *Term
		if !isArr {
			goal = p.Eq(cur, old)
		} else {
			vc.qSeq++
			r := p.Var(fmt.Sprintf("r?%d", vc.qSeq), SInt)
			var exempt []*Term
			exempt = append(exempt, p.Gt(r, a0))          // fresh objects
			exempt = append(exempt, p.Eq(r, p.Int(0))) // the nil reference holds no location
			exempt = append(exempt, p.And(p.Lt(r, p.Int(0)), p.Gt(p.App("rootof", SInt, r), a0))) // parts of fresh objects
			for _, l := range ls {
				exempt = append(exempt, p.Eq(r, l.idx[0]))
			}
			goal = p.Forall([]*Term{r}, p.Or(append(exempt, p.Eq(p.Select(cur, r), p.Select(old, r)))...))
			// interior references of fresh objects are fresh too: sub/elem refs are negative; exempt those whose root is fresh
			if vc.allocTypesAny() {
				// keep the simple form; negative refs of fresh objects are handled by the `par` chain only when needed
			}
		}
		n++
		vc.oblige(exit, "frame", sanitize(k), "frame: "+k+" changes only at the locations of the modifies clause", goal, ct.Tags, fn.Pos(), false)
	}
	_ = token.NoPos
}

func (vc *VC) allocTypesAny() bool { return len(vc.allocTypes) > 0 }

// assumeAxioms adds the closed axioms of the spec library (trusted; listed in the evidence).
func (vc *VC) assumeAxioms(st *State) {
	for _, ax := range vc.E.DB.Axioms {
		c := &evalCtx{vc: vc, st: st, names: map[string]EV{}, bound: map[string]*Term{}}
		vc.assumeGlobal(c.bool(c.eval(ax.Expr), ax.Expr))
	}
}
