package govc

import (
	"fmt"
	"go/ast"
	"go/parser"
	"go/token"
	"os"
	"regexp"
	"sort"
	"strconv"
	"strings"
)

// Clause is one requires/ensures/invariant/... line of a contract.
type Clause struct {
	Kind  string // requires, ensures, invariant, decreases, assert, modifies
	Expr  *Expr
	Text  string
	Tags  []string
	Label string // for assert@...
	Src   string // file:line
	Idx   int    // ordinal within its kind
}

func (c *Clause) HasTag(t string) bool {
	for _, x := range c.Tags {
		if x == t {
			return true
		}
	}
	return false
}

// Contract is the specification attached to one function or interface method.
type Contract struct {
	Key        string // canonical key, e.g. "github.com/x/y.(*T).M" or "github.com/x/y.F"
	Pkg        string
	RecvName   string
	ParamNames []string // as written in the header (positional), may be empty
	Header     string
	Requires   []*Clause
	Ensures    []*Clause
	ObjInv     []*Clause // object invariant of the receiver: assumed at entry, proved at exit, not demanded of callers
	Assumes    []*Clause // facts about the calling context assumed at entry (application wiring); never demanded of callers
	Implements string    // role/interface contract this function's contract must refine
	Preserves  []*Clause // with `modifies everything`: locations that nevertheless keep their value
	Modifies   []*Clause // Expr is a location expression; nil Expr + Text "nothing"
	HasMod     bool
	Allocates  []string
	LoopInv    map[int][]*Clause
	LoopDec    map[int]*Clause
	LoopMod    map[int][]*Clause // precise frame of a loop: only these locations (and fresh objects) change
	LoopAssume map[int][]*Clause // facts about the environment assumed at the head of a loop (never proved; listed as assumptions)
	Asserts    []*Clause
	Musts      []*Clause // must@<anchor>: the anchored instruction is executed on every exit path satisfying the condition
	Pure       bool
	Trusted    bool // contract is assumed (dependency or explicitly trusted repo function)
	Inline     bool // body is inlined at call sites even though loop clauses are attached
	NoPanic    bool // explicit request for the safety sweep only
	Arith      bool // machine-integer overflow obligations on + - * and narrowing conversions
	Lib        bool
	SameAs     string // take requires/ensures/modifies from another contract of the same package
	Tags       []string
	Src        string
}

type SpecFn struct {
	Name   string
	Params []string
	Body   *Expr
	Src    string
}

type UFunDecl struct {
	Name string
	Args []Sort
	Ret  Sort
	// Reads: for a state-dependent function ("sfun"), the heap maps its value depends on; an application is
	// an uninterpreted function of its arguments and of the current versions of these maps
	Reads []string
}

type Axiom struct {
	Name string
	Expr *Expr
	Src  string
}

// SpecDB holds every contract and spec-level declaration that was loaded.
type SpecDB struct {
	Contracts map[string]*Contract
	Specs     map[string]*SpecFn
	UFuns     map[string]*UFunDecl
	Axioms    []*Axiom
	Ghosts    map[string]Sort
	Errors    []string
	PureFns   map[string]bool
	PurePkgs  map[string]bool
	// Effects: declared nondeterminism-relevant primitives per function ("effect <func> <id>: reason")
	Effects map[string]map[string]string
}

func NewSpecDB() *SpecDB {
	return &SpecDB{Contracts: map[string]*Contract{}, Specs: map[string]*SpecFn{}, UFuns: map[string]*UFunDecl{}, Ghosts: map[string]Sort{}, PureFns: map[string]bool{}, PurePkgs: map[string]bool{}, Effects: map[string]map[string]string{}}
}

var tagRe = regexp.MustCompile(`\s+\[(C[0-9]{2,3}(?:\s*,\s*C[0-9]{2,3})*)\]\s*$`)

var clauseKeywords = map[string]bool{
	"func": true, "requires": true, "ensures": true, "modifies": true, "allocates": true,
	"loop": true, "pure": true, "trusted": true, "inline": true, "tags": true, "spec": true,
	"ufun": true, "sfun": true, "axiom": true, "ghost": true, "package": true, "lib": true, "nopanic": true, "arith": true,
	"purepkg": true, "purefn": true, "effect": true, "sameas": true, "preserves": true, "objinv": true, "implements": true, "assumes": true,
}

// LoadFile parses one contract or spec file. defaultPkg is the Go package path
// the file belongs to ("" for spec files, which must use `package "path"`).
// Lines are taken from `//@` comments when the file is a Go file, or verbatim otherwise.
func (db *SpecDB) LoadFile(path, defaultPkg string, lib bool) error {
	data, err := os.ReadFile(path)
	if err != nil {
		return err
	}
	isGo := strings.HasSuffix(path, ".go")
	type line struct {
		text string
		no   int
	}
	var lines []line
	for i, l := range strings.Split(string(data), "\n") {
		t := strings.TrimSpace(l)
		if isGo {
			if !strings.HasPrefix(t, "//@") {
				continue
			}
			t = strings.TrimSpace(strings.TrimPrefix(t, "//@"))
		} else {
			if strings.HasPrefix(t, "//@") {
				t = strings.TrimSpace(strings.TrimPrefix(t, "//@"))
			}
			if strings.HasPrefix(t, "#") || strings.HasPrefix(t, "//") {
				continue
			}
		}
		if t == "" {
			continue
		}
		// strip trailing line comment " // ..."
		if k := strings.Index(t, " // "); k >= 0 {
			t = strings.TrimSpace(t[:k])
		}
		lines = append(lines, line{t, i + 1})
	}
	// join continuation lines
	var joined []line
	for _, l := range lines {
		first := strings.FieldsFunc(l.text, func(r rune) bool { return r == ' ' || r == '(' || r == ':' || r == '@' })
		kw := ""
		if len(first) > 0 {
			kw = first[0]
		}
		if clauseKeywords[kw] || strings.HasPrefix(l.text, "assert@") || strings.HasPrefix(l.text, "cbinv@") || strings.HasPrefix(l.text, "must@") || strings.HasPrefix(l.text, "after@") || len(joined) == 0 {
			joined = append(joined, l)
		} else {
			joined[len(joined)-1].text += " " + l.text
		}
	}
	pkg := defaultPkg
	var cur *Contract
	fail := func(no int, format string, a ...any) {
		db.Errors = append(db.Errors, fmt.Sprintf("%s:%d: %s", path, no, fmt.Sprintf(format, a...)))
	}
	for _, l := range joined {
		src := fmt.Sprintf("%s:%d", path, l.no)
		text := l.text
		var tags []string
		if m := tagRe.FindStringSubmatch(text); m != nil {
			for _, t := range strings.Split(m[1], ",") {
				tags = append(tags, strings.TrimSpace(t))
			}
			text = strings.TrimSpace(text[:len(text)-len(m[0])])
		}
		kw, rest := splitKw(text)
		switch {
		case kw == "package":
			pkg = strings.Trim(rest, `"`)
			cur = nil
		case kw == "effect":
			// effect <func> <id>: reason   — an effect clause of the function's contract (C01): the listed
			// primitive is present in the body and is justified by the reason (an obligation or an argument)
			f := strings.Fields(rest)
			if len(f) < 2 {
				fail(l.no, "effect needs a function and an effect id")
				continue
			}
			id := strings.TrimSuffix(f[1], ":")
			reason := strings.TrimSpace(strings.TrimPrefix(strings.TrimSpace(rest[len(f[0]):]), f[1]))
			key := pkg + "." + f[0]
			if db.Effects[key] == nil {
				db.Effects[key] = map[string]string{}
			}
			db.Effects[key][id] = strings.TrimPrefix(reason, ":")
			cur = nil
		case kw == "purepkg":
			db.PurePkgs[strings.Trim(rest, `"`)] = true
		case kw == "purefn":
			db.PureFns[strings.Trim(rest, `"`)] = true
		case kw == "lib":
			// lib "pkgpath" func ...
			rest = strings.TrimSpace(rest)
			if !strings.HasPrefix(rest, `"`) {
				fail(l.no, "lib needs a quoted package path")
				continue
			}
			end := strings.Index(rest[1:], `"`)
			lp := rest[1 : 1+end]
			hdr := strings.TrimSpace(rest[2+end:])
			hdr = strings.TrimPrefix(hdr, "func ")
			c, err := parseHeader(hdr, lp)
			if err != nil {
				fail(l.no, "%v", err)
				cur = nil
				continue
			}
			c.Lib, c.Trusted, c.Src, c.Tags = true, true, src, tags
			db.add(c, fail, l.no)
			cur = c
		case kw == "func":
			c, err := parseHeader(rest, pkg)
			if err != nil {
				fail(l.no, "%v", err)
				cur = nil
				continue
			}
			c.Src, c.Tags = src, tags
			c.Lib = lib
			c.Trusted = lib
			db.add(c, fail, l.no)
			cur = c
		case kw == "spec":
			// spec name(a, b) = expr
			eq := strings.Index(rest, "=")
			if eq < 0 {
				fail(l.no, "spec needs '='")
				continue
			}
			head := strings.TrimSpace(rest[:eq])
			// careful: '=' may be part of '==' in body only; head has none
			body := strings.TrimSpace(rest[eq+1:])
			op := strings.Index(head, "(")
			if op < 0 || !strings.HasSuffix(head, ")") {
				fail(l.no, "spec header malformed: %s", head)
				continue
			}
			name := strings.TrimSpace(head[:op])
			var params []string
			for _, p := range strings.Split(head[op+1:len(head)-1], ",") {
				p = strings.TrimSpace(p)
				if p != "" {
					params = append(params, p)
				}
			}
			e, err := ParseExpr(body)
			if err != nil {
				fail(l.no, "%v", err)
				continue
			}
			db.Specs[name] = &SpecFn{Name: name, Params: params, Body: e, Src: src}
		case kw == "sfun":
			// sfun name(Int, Int): Int reads key, key, ...
			ri := strings.Index(rest, " reads ")
			if ri < 0 {
				fail(l.no, "sfun needs a reads list")
				continue
			}
			head, reads := rest[:ri], rest[ri+7:]
			op := strings.Index(head, "(")
			cp := strings.LastIndex(head, ")")
			col := strings.LastIndex(head, ":")
			if op < 0 || cp < op || col < cp {
				fail(l.no, "sfun malformed")
				continue
			}
			d := &UFunDecl{Name: strings.TrimSpace(head[:op]), Ret: Sort(strings.TrimSpace(head[col+1:]))}
			for _, a := range strings.Split(head[op+1:cp], ",") {
				if a = strings.TrimSpace(a); a != "" {
					d.Args = append(d.Args, Sort(a))
				}
			}
			for _, k := range strings.Split(reads, ",") {
				if k = strings.TrimSpace(k); k != "" {
					d.Reads = append(d.Reads, k)
				}
			}
			if len(d.Reads) == 0 {
				fail(l.no, "sfun needs a non-empty reads list")
				continue
			}
			db.UFuns[d.Name] = d
		case kw == "ufun":
			// ufun name(Int, Int): Int
			op := strings.Index(rest, "(")
			cp := strings.LastIndex(rest, ")")
			col := strings.LastIndex(rest, ":")
			if op < 0 || cp < op || col < cp {
				fail(l.no, "ufun malformed")
				continue
			}
			d := &UFunDecl{Name: strings.TrimSpace(rest[:op]), Ret: Sort(strings.TrimSpace(rest[col+1:]))}
			for _, a := range strings.Split(rest[op+1:cp], ",") {
				a = strings.TrimSpace(a)
				if a != "" {
					d.Args = append(d.Args, Sort(a))
				}
			}
			db.UFuns[d.Name] = d
		case kw == "axiom":
			col := strings.Index(rest, ":")
			if col < 0 {
				fail(l.no, "axiom needs a name and ':'")
				continue
			}
			e, err := ParseExpr(rest[col+1:])
			if err != nil {
				fail(l.no, "%v", err)
				continue
			}
			db.Axioms = append(db.Axioms, &Axiom{Name: strings.TrimSpace(rest[:col]), Expr: e, Src: src})
		case kw == "ghost":
			col := strings.Index(rest, ":")
			if col < 0 {
				fail(l.no, "ghost needs name: Sort")
				continue
			}
			db.Ghosts[strings.TrimSpace(rest[:col])] = Sort(strings.TrimSpace(rest[col+1:]))
		default:
			if cur == nil {
				fail(l.no, "clause outside a contract: %s", text)
				continue
			}
			if len(tags) == 0 {
				tags = cur.Tags
			}
			switch {
			case kw == "tags":
				for _, t := range strings.Split(rest, ",") {
					cur.Tags = append(cur.Tags, strings.TrimSpace(t))
				}
			case kw == "sameas":
				cur.SameAs = strings.TrimSpace(rest)
			case kw == "implements":
				cur.Implements = strings.TrimSpace(rest)
			case kw == "assumes":
				e, err := ParseExpr(rest)
				if err != nil {
					fail(l.no, "%v", err)
					continue
				}
				cur.Assumes = append(cur.Assumes, &Clause{Kind: "assumes", Expr: e, Text: rest, Tags: tags, Src: src, Idx: len(cur.Assumes)})
			case kw == "objinv":
				e, err := ParseExpr(rest)
				if err != nil {
					fail(l.no, "%v", err)
					continue
				}
				cur.ObjInv = append(cur.ObjInv, &Clause{Kind: "objinv", Expr: e, Text: rest, Tags: tags, Src: src, Idx: len(cur.ObjInv)})
			case kw == "pure":
				cur.Pure = true
			case kw == "trusted":
				cur.Trusted = true
			case kw == "inline":
				cur.Inline = true
			case kw == "nopanic":
				cur.NoPanic = true
			case kw == "arith":
				cur.Arith = true
			case kw == "requires" || kw == "ensures":
				e, err := ParseExpr(rest)
				if err != nil {
					fail(l.no, "%v", err)
					continue
				}
				cl := &Clause{Kind: kw, Expr: e, Text: rest, Tags: tags, Src: src}
				if kw == "requires" {
					cl.Idx = len(cur.Requires)
					cur.Requires = append(cur.Requires, cl)
				} else {
					cl.Idx = len(cur.Ensures)
					cur.Ensures = append(cur.Ensures, cl)
				}
			case kw == "modifies":
				cur.HasMod = true
				for _, part := range splitTopLevel(rest, ',') {
					part = strings.TrimSpace(part)
					if part == "" || part == "nothing" {
						continue
					}
					e, err := ParseExpr(part)
					if err != nil {
						fail(l.no, "%v", err)
						continue
					}
					cur.Modifies = append(cur.Modifies, &Clause{Kind: "modifies", Expr: e, Text: part, Tags: tags, Src: src})
				}
			case kw == "preserves":
				for _, part := range splitTopLevel(rest, ',') {
					part = strings.TrimSpace(part)
					if part == "" {
						continue
					}
					e, err := ParseExpr(part)
					if err != nil {
						fail(l.no, "%v", err)
						continue
					}
					cur.Preserves = append(cur.Preserves, &Clause{Kind: "preserves", Expr: e, Text: part, Tags: tags, Src: src})
				}
			case kw == "allocates":
				for _, part := range strings.Split(rest, ",") {
					if part = strings.TrimSpace(part); part != "" {
						cur.Allocates = append(cur.Allocates, part)
					}
				}
			case kw == "loop":
				// loop 0,1: invariant E   |  loop 0: decreases E
				col := strings.Index(rest, ":")
				if col < 0 {
					fail(l.no, "loop clause needs ':'")
					continue
				}
				var ids []int
				for _, s := range strings.Split(rest[:col], ",") {
					n, err := strconv.Atoi(strings.TrimSpace(s))
					if err != nil {
						fail(l.no, "bad loop ordinal %q", s)
						continue
					}
					ids = append(ids, n)
				}
				k2, body := splitKw(strings.TrimSpace(rest[col+1:]))
				if k2 == "modifies" {
					for _, id := range ids {
						if _, ok := cur.LoopMod[id]; !ok {
							cur.LoopMod[id] = []*Clause{}
						}
						for _, part := range splitTopLevel(body, ',') {
							part = strings.TrimSpace(part)
							if part == "" || part == "nothing" {
								continue
							}
							pe, err := ParseExpr(part)
							if err != nil {
								fail(l.no, "%v", err)
								continue
							}
							cur.LoopMod[id] = append(cur.LoopMod[id], &Clause{Kind: "modifies", Expr: pe, Text: part, Tags: tags, Src: src})
						}
					}
					continue
				}
				e, err := ParseExpr(body)
				if err != nil {
					fail(l.no, "%v", err)
					continue
				}
				for _, id := range ids {
					cl := &Clause{Kind: k2, Expr: e, Text: body, Tags: tags, Src: src}
					switch k2 {
					case "invariant":
						cl.Idx = len(cur.LoopInv[id])
						cur.LoopInv[id] = append(cur.LoopInv[id], cl)
					case "decreases":
						cur.LoopDec[id] = cl
					case "assumes":
						cl.Kind = "loopassume" // evaluated over the locals at the loop head, like an invariant
						cur.LoopAssume[id] = append(cur.LoopAssume[id], cl)
					default:
						fail(l.no, "unknown loop clause %q", k2)
					}
				}
			case strings.HasPrefix(text, "must@"):
				// must@call(F,k): cond   — on every path to an exit satisfying cond, the k-th call of F (or
				// store(T.f,k)) has been executed (a conditional skip of a mandatory step is a failed obligation)
				col := strings.Index(text, "):")
				if col < 0 {
					fail(l.no, "must@ clause needs '):'")
					continue
				}
				label := text[len("must@") : col+1]
				e, err := ParseExpr(text[col+2:])
				if err != nil {
					fail(l.no, "%v", err)
					continue
				}
				cur.Musts = append(cur.Musts, &Clause{Kind: "must", Expr: e, Text: strings.TrimSpace(text[col+2:]), Label: label, Tags: tags, Src: src, Idx: len(cur.Musts)})
			case strings.HasPrefix(text, "after@"):
				// after@call(F,k): expr over $result (or $result0, $result1): proved right after the call returns
				col := strings.Index(text, "):")
				if col < 0 {
					fail(l.no, "after@ clause needs '):'")
					continue
				}
				label := "after:" + text[len("after@"):col+1]
				e, err := ParseExpr(text[col+2:])
				if err != nil {
					fail(l.no, "%v", err)
					continue
				}
				cur.Asserts = append(cur.Asserts, &Clause{Kind: "assert", Expr: e, Text: strings.TrimSpace(text[col+2:]), Label: label, Tags: tags, Src: src, Idx: len(cur.Asserts)})
			case strings.HasPrefix(text, "assert@"), strings.HasPrefix(text, "cbinv@"):
				// cbinv@call(F,k): an invariant of the callback handed to the k-th call of F (a higher-order
				// iteration): proved at the call, assumed after it; that every invocation of the callback preserves
				// it is the callback's own contract (requires/ensures the same expression)
				post := strings.HasPrefix(text, "cbinv@")
				if post {
					text = "assert@" + strings.TrimPrefix(text, "cbinv@")
				}
				col := strings.Index(text, "):")
				if col < 0 {
					fail(l.no, "assert@ clause needs '):'")
					continue
				}
				label := text[len("assert@") : col+1]
				if post {
					label = "post:" + label
				}
				e, err := ParseExpr(text[col+2:])
				if err != nil {
					fail(l.no, "%v", err)
					continue
				}
				cl := &Clause{Kind: "assert", Expr: e, Text: strings.TrimSpace(text[col+2:]), Label: label, Tags: tags, Src: src, Idx: len(cur.Asserts)}
				cur.Asserts = append(cur.Asserts, cl)
			default:
				fail(l.no, "unknown clause: %s", text)
			}
		}
	}
	return nil
}

func (db *SpecDB) add(c *Contract, fail func(int, string, ...any), no int) {
	if old, ok := db.Contracts[c.Key]; ok {
		fail(no, "duplicate contract for %s (first at %s)", c.Key, old.Src)
		return
	}
	db.Contracts[c.Key] = c
}

func splitKw(s string) (string, string) {
	s = strings.TrimSpace(s)
	i := strings.IndexAny(s, " \t")
	if i < 0 {
		return s, ""
	}
	return s[:i], strings.TrimSpace(s[i+1:])
}

func splitTopLevel(s string, sep rune) []string {
	var out []string
	depth := 0
	start := 0
	for i, r := range s {
		switch r {
		case '(', '[':
			depth++
		case ')', ']':
			depth--
		default:
			if r == sep && depth == 0 {
				out = append(out, s[start:i])
				start = i + 1
			}
		}
	}
	out = append(out, s[start:])
	return out
}

// parseHeader parses "func"-less Go-like headers:
//
//	(recv *T) M(a, b) ...   |   F(a, b T) ...   |   (recv T[X]) M()
func parseHeader(hdr, pkg string) (*Contract, error) {
	src := "package p\nfunc " + hdr
	if !strings.Contains(hdr, "{") {
		src += " {}"
	}
	fset := token.NewFileSet()
	f, err := parser.ParseFile(fset, "", src, parser.SkipObjectResolution)
	if err != nil {
		return nil, fmt.Errorf("cannot parse contract header %q: %v", hdr, err)
	}
	if len(f.Decls) != 1 {
		return nil, fmt.Errorf("contract header %q: expected one declaration", hdr)
	}
	fd, ok := f.Decls[0].(*ast.FuncDecl)
	if !ok {
		return nil, fmt.Errorf("contract header %q: not a function", hdr)
	}
	c := &Contract{Pkg: pkg, Header: hdr, LoopInv: map[int][]*Clause{}, LoopDec: map[int]*Clause{}, LoopMod: map[int][]*Clause{}, LoopAssume: map[int][]*Clause{}}
	name := fd.Name.Name
	// anonymous functions: "parent__1" names the first closure of parent (go/ssa: parent$1)
	if i := strings.LastIndex(name, "__"); i > 0 {
		if _, err := strconv.Atoi(name[i+2:]); err == nil {
			name = name[:i] + "$" + name[i+2:]
		}
	}
	if fd.Recv != nil && len(fd.Recv.List) == 1 {
		r := fd.Recv.List[0]
		if len(r.Names) == 1 {
			c.RecvName = r.Names[0].Name
		}
		tn, ptr := recvTypeName(r.Type)
		if ptr {
			c.Key = pkg + ".(*" + tn + ")." + name
		} else {
			c.Key = pkg + ".(" + tn + ")." + name
		}
	} else {
		c.Key = pkg + "." + name
	}
	if fd.Type.Params != nil {
		for _, p := range fd.Type.Params.List {
			if len(p.Names) == 0 {
				if id, ok := p.Type.(*ast.Ident); ok {
					c.ParamNames = append(c.ParamNames, id.Name)
				} else {
					c.ParamNames = append(c.ParamNames, "_")
				}
			}
			for _, n := range p.Names {
				c.ParamNames = append(c.ParamNames, n.Name)
			}
		}
	}
	return c, nil
}

func recvTypeName(e ast.Expr) (string, bool) {
	switch t := e.(type) {
	case *ast.StarExpr:
		n, _ := recvTypeName(t.X)
		return n, true
	case *ast.Ident:
		return t.Name, false
	case *ast.IndexExpr:
		return recvTypeName(t.X)
	case *ast.IndexListExpr:
		return recvTypeName(t.X)
	case *ast.ParenExpr:
		return recvTypeName(t.X)
	case *ast.SelectorExpr:
		return t.Sel.Name, false
	}
	return "?", false
}

// ResolveSameAs copies the clauses of referenced contracts (call after all files are loaded).
func (db *SpecDB) ResolveSameAs() {
	for _, c := range db.Contracts {
		if c.SameAs == "" {
			continue
		}
		ref := c.SameAs
		if !strings.Contains(ref, "/") {
			ref = c.Pkg + "." + ref
		}
		o := db.Contracts[ref]
		if o == nil {
			db.Errors = append(db.Errors, fmt.Sprintf("%s: sameas %s: no such contract", c.Src, ref))
			continue
		}
		c.Requires, c.Ensures, c.Modifies, c.HasMod, c.Allocates = o.Requires, o.Ensures, o.Modifies, o.HasMod, o.Allocates
		c.Preserves = o.Preserves
		c.Pure = o.Pure
		c.RecvName, c.ParamNames = o.RecvName, o.ParamNames
		if len(c.Tags) == 0 {
			c.Tags = o.Tags
		}
	}
}

// KeysSorted returns contract keys in a stable order.
func (db *SpecDB) KeysSorted() []string {
	ks := make([]string, 0, len(db.Contracts))
	for k := range db.Contracts {
		ks = append(ks, k)
	}
	sort.Strings(ks)
	return ks
}
