package govc

import (
	"fmt"
	"math/big"
	"strings"
	"unicode"
)

// Expr is the AST of a contract expression.
type Expr struct {
	Kind string // ident,int,bool,nil,field,index,call,unary,binary,old,quant,cond,slice
	Name string // ident / field name / call name / operator / quantifier kind
	Int  *big.Int
	Args []*Expr
	Vars []string // quantifier variables
	Pos  string   // source text position for messages
}

func (e *Expr) String() string {
	switch e.Kind {
	case "ident":
		return e.Name
	case "int":
		return e.Int.String()
	case "bool":
		return e.Name
	case "nil":
		return "nil"
	case "field":
		return e.Args[0].String() + "." + e.Name
	case "index":
		return e.Args[0].String() + "[" + e.Args[1].String() + "]"
	case "call":
		as := []string{}
		for _, a := range e.Args {
			as = append(as, a.String())
		}
		return e.Name + "(" + strings.Join(as, ", ") + ")"
	case "unary":
		return e.Name + e.Args[0].String()
	case "binary":
		return "(" + e.Args[0].String() + " " + e.Name + " " + e.Args[1].String() + ")"
	case "old":
		return "old(" + e.Args[0].String() + ")"
	case "quant":
		return "(" + e.Name + " " + strings.Join(e.Vars, ", ") + " :: " + e.Args[0].String() + ")"
	case "cond":
		return "(" + e.Args[0].String() + " ? " + e.Args[1].String() + " : " + e.Args[2].String() + ")"
	}
	return "?" + e.Kind
}

type etoken struct {
	kind string // id,int,op,eof
	text string
}

func lexExpr(src string) ([]etoken, error) {
	var toks []etoken
	rs := []rune(src)
	i := 0
	for i < len(rs) {
		r := rs[i]
		switch {
		case unicode.IsSpace(r):
			i++
		case unicode.IsLetter(r) || r == '_' || r == '$':
			j := i
			for j < len(rs) && (unicode.IsLetter(rs[j]) || unicode.IsDigit(rs[j]) || rs[j] == '_' || rs[j] == '$' || rs[j] == '#') {
				j++
			}
			toks = append(toks, etoken{"id", string(rs[i:j])})
			i = j
		case unicode.IsDigit(r):
			j := i
			for j < len(rs) && (unicode.IsDigit(rs[j]) || rs[j] == '_') {
				j++
			}
			toks = append(toks, etoken{"int", strings.ReplaceAll(string(rs[i:j]), "_", "")})
			i = j
		default:
			three := ""
			if i+4 <= len(rs) {
				three = string(rs[i : i+4])
			}
			if three == "<==>" {
				toks = append(toks, etoken{"op", three})
				i += 4
				continue
			}
			if i+3 <= len(rs) && string(rs[i:i+3]) == "==>" {
				toks = append(toks, etoken{"op", "==>"})
				i += 3
				continue
			}
			if i+2 <= len(rs) {
				two := string(rs[i : i+2])
				switch two {
				case "==", "!=", "<=", ">=", "&&", "||", "::":
					toks = append(toks, etoken{"op", two})
					i += 2
					continue
				}
			}
			switch r {
			case '+', '-', '*', '/', '%', '<', '>', '!', '(', ')', '[', ']', '.', ',', '?', ':', '^':
				toks = append(toks, etoken{"op", string(r)})
				i++
			default:
				return nil, fmt.Errorf("unexpected character %q in %q", r, src)
			}
		}
	}
	toks = append(toks, etoken{"eof", ""})
	return toks, nil
}

type exprParser struct {
	toks []etoken
	pos  int
	src  string
}

// ParseExpr parses a contract expression.
func ParseExpr(src string) (*Expr, error) {
	toks, err := lexExpr(src)
	if err != nil {
		return nil, err
	}
	p := &exprParser{toks: toks, src: src}
	e, err := p.parseTop()
	if err != nil {
		return nil, fmt.Errorf("%v in %q", err, src)
	}
	if p.peek().kind != "eof" {
		return nil, fmt.Errorf("trailing tokens at %q in %q", p.peek().text, src)
	}
	return e, nil
}

func (p *exprParser) peek() etoken { return p.toks[p.pos] }
func (p *exprParser) next() etoken  { t := p.toks[p.pos]; p.pos++; return t }
func (p *exprParser) isOp(s string) bool {
	t := p.peek()
	return t.kind == "op" && t.text == s
}
func (p *exprParser) expectOp(s string) error {
	if !p.isOp(s) {
		return fmt.Errorf("expected %q, got %q", s, p.peek().text)
	}
	p.pos++
	return nil
}

func (p *exprParser) parseTop() (*Expr, error) {
	c, err := p.parseIff()
	if err != nil {
		return nil, err
	}
	if p.isOp("?") {
		p.next()
		a, err := p.parseTop()
		if err != nil {
			return nil, err
		}
		if err := p.expectOp(":"); err != nil {
			return nil, err
		}
		b, err := p.parseTop()
		if err != nil {
			return nil, err
		}
		return &Expr{Kind: "cond", Args: []*Expr{c, a, b}}, nil
	}
	return c, nil
}

func (p *exprParser) parseIff() (*Expr, error) {
	l, err := p.parseImp()
	if err != nil {
		return nil, err
	}
	for p.isOp("<==>") {
		p.next()
		r, err := p.parseImp()
		if err != nil {
			return nil, err
		}
		l = &Expr{Kind: "binary", Name: "<==>", Args: []*Expr{l, r}}
	}
	return l, nil
}

func (p *exprParser) parseImp() (*Expr, error) {
	l, err := p.parseOr()
	if err != nil {
		return nil, err
	}
	if p.isOp("==>") {
		p.next()
		r, err := p.parseImp()
		if err != nil {
			return nil, err
		}
		return &Expr{Kind: "binary", Name: "==>", Args: []*Expr{l, r}}, nil
	}
	return l, nil
}

func (p *exprParser) parseOr() (*Expr, error) {
	l, err := p.parseAnd()
	if err != nil {
		return nil, err
	}
	for p.isOp("||") {
		p.next()
		r, err := p.parseAnd()
		if err != nil {
			return nil, err
		}
		l = &Expr{Kind: "binary", Name: "||", Args: []*Expr{l, r}}
	}
	return l, nil
}

func (p *exprParser) parseAnd() (*Expr, error) {
	l, err := p.parseCmp()
	if err != nil {
		return nil, err
	}
	for p.isOp("&&") {
		p.next()
		r, err := p.parseCmp()
		if err != nil {
			return nil, err
		}
		l = &Expr{Kind: "binary", Name: "&&", Args: []*Expr{l, r}}
	}
	return l, nil
}

func (p *exprParser) parseCmp() (*Expr, error) {
	l, err := p.parseAdd()
	if err != nil {
		return nil, err
	}
	// chained comparisons a <= b < c  ==> (a<=b) && (b<c)
	var res *Expr
	for {
		t := p.peek()
		if t.kind == "op" && (t.text == "==" || t.text == "!=" || t.text == "<" || t.text == "<=" || t.text == ">" || t.text == ">=") {
			p.next()
			r, err := p.parseAdd()
			if err != nil {
				return nil, err
			}
			c := &Expr{Kind: "binary", Name: t.text, Args: []*Expr{l, r}}
			if res == nil {
				res = c
			} else {
				res = &Expr{Kind: "binary", Name: "&&", Args: []*Expr{res, c}}
			}
			l = r
			continue
		}
		break
	}
	if res != nil {
		return res, nil
	}
	return l, nil
}

func (p *exprParser) parseAdd() (*Expr, error) {
	l, err := p.parseMul()
	if err != nil {
		return nil, err
	}
	for p.isOp("+") || p.isOp("-") {
		op := p.next().text
		r, err := p.parseMul()
		if err != nil {
			return nil, err
		}
		l = &Expr{Kind: "binary", Name: op, Args: []*Expr{l, r}}
	}
	return l, nil
}

func (p *exprParser) parseMul() (*Expr, error) {
	l, err := p.parsePow()
	if err != nil {
		return nil, err
	}
	for p.isOp("*") || p.isOp("/") || p.isOp("%") {
		op := p.next().text
		r, err := p.parsePow()
		if err != nil {
			return nil, err
		}
		l = &Expr{Kind: "binary", Name: op, Args: []*Expr{l, r}}
	}
	return l, nil
}

func (p *exprParser) parsePow() (*Expr, error) {
	l, err := p.parseUnary()
	if err != nil {
		return nil, err
	}
	if p.isOp("^") {
		p.next()
		r, err := p.parseUnary()
		if err != nil {
			return nil, err
		}
		if l.Kind != "int" || r.Kind != "int" {
			return nil, fmt.Errorf("^ needs integer literals")
		}
		return &Expr{Kind: "int", Int: new(big.Int).Exp(l.Int, r.Int, nil)}, nil
	}
	return l, nil
}

func (p *exprParser) parseUnary() (*Expr, error) {
	if p.isOp("!") {
		p.next()
		e, err := p.parseUnary()
		if err != nil {
			return nil, err
		}
		return &Expr{Kind: "unary", Name: "!", Args: []*Expr{e}}, nil
	}
	if p.isOp("-") {
		p.next()
		// unary minus binds looser than ^ : -2^62 is -(2^62), not (-2)^62 (which is positive)
		e, err := p.parsePow()
		if err != nil {
			return nil, err
		}
		if e.Kind == "int" {
			return &Expr{Kind: "int", Int: new(big.Int).Neg(e.Int)}, nil
		}
		return &Expr{Kind: "unary", Name: "-", Args: []*Expr{e}}, nil
	}
	return p.parsePostfix()
}

func (p *exprParser) parsePostfix() (*Expr, error) {
	e, err := p.parsePrimary()
	if err != nil {
		return nil, err
	}
	for {
		switch {
		case p.isOp("."):
			p.next()
			t := p.next()
			if t.kind != "id" && !(t.kind == "op" && t.text == "*") {
				return nil, fmt.Errorf("expected field name after '.'")
			}
			e = &Expr{Kind: "field", Name: t.text, Args: []*Expr{e}}
		case p.isOp("["):
			p.next()
			i, err := p.parseTop()
			if err != nil {
				return nil, err
			}
			if err := p.expectOp("]"); err != nil {
				return nil, err
			}
			e = &Expr{Kind: "index", Args: []*Expr{e, i}}
		default:
			return e, nil
		}
	}
}

func (p *exprParser) parsePrimary() (*Expr, error) {
	t := p.next()
	switch t.kind {
	case "int":
		v, _ := new(big.Int).SetString(t.text, 10)
		return &Expr{Kind: "int", Int: v}, nil
	case "id":
		switch t.text {
		case "true", "false":
			return &Expr{Kind: "bool", Name: t.text}, nil
		case "nil":
			return &Expr{Kind: "nil"}, nil
		case "forall", "exists":
			var vars []string
			for {
				v := p.next()
				if v.kind != "id" {
					return nil, fmt.Errorf("expected variable in quantifier")
				}
				vars = append(vars, v.text)
				if p.isOp(",") {
					p.next()
					continue
				}
				break
			}
			if err := p.expectOp("::"); err != nil {
				return nil, err
			}
			body, err := p.parseTop()
			if err != nil {
				return nil, err
			}
			return &Expr{Kind: "quant", Name: t.text, Vars: vars, Args: []*Expr{body}}, nil
		}
		if p.isOp("(") {
			p.next()
			var args []*Expr
			if !p.isOp(")") {
				for {
					a, err := p.parseTop()
					if err != nil {
						return nil, err
					}
					args = append(args, a)
					if p.isOp(",") {
						p.next()
						continue
					}
					break
				}
			}
			if err := p.expectOp(")"); err != nil {
				return nil, err
			}
			if t.text == "old" {
				if len(args) != 1 {
					return nil, fmt.Errorf("old takes one argument")
				}
				return &Expr{Kind: "old", Args: args}, nil
			}
			return &Expr{Kind: "call", Name: t.text, Args: args}, nil
		}
		return &Expr{Kind: "ident", Name: t.text}, nil
	case "op":
		if t.text == "(" {
			e, err := p.parseTop()
			if err != nil {
				return nil, err
			}
			if err := p.expectOp(")"); err != nil {
				return nil, err
			}
			return e, nil
		}
	}
	return nil, fmt.Errorf("unexpected token %q", t.text)
}

// substExpr replaces identifiers by expressions (macro expansion of spec functions).
func substExpr(e *Expr, m map[string]*Expr) *Expr {
	if e == nil {
		return nil
	}
	if e.Kind == "ident" {
		if r, ok := m[e.Name]; ok {
			return r
		}
		return e
	}
	if e.Kind == "quant" {
		// bound variables shadow
		m2 := m
		for _, v := range e.Vars {
			if _, ok := m[v]; ok {
				if &m2 == &m || true {
					m2 = map[string]*Expr{}
					for k, x := range m {
						m2[k] = x
					}
				}
				delete(m2, v)
			}
		}
		m = m2
	}
	ne := *e
	ne.Args = make([]*Expr, len(e.Args))
	for i, a := range e.Args {
		ne.Args[i] = substExpr(a, m)
	}
	return &ne
}
