package govc

import (
	"fmt"
	"go/types"
	"sort"

	"golang.org/x/tools/go/ssa"
)

type VKind int

const (
	VScalar VKind = iota
	VSlice
	VStruct // also tuples
	VAddr
)

// Val is a symbolic Go value.
type Val struct {
	K   VKind
	T   *Term // VScalar
	Arr *Term // VSlice: backing array ref
	Off *Term
	Len *Term
	Cap *Term
	Fs  []Val      // VStruct / tuple
	A   *Addr      // VAddr
	Fn  *FuncVal   // extra static info for function values (K == VScalar)
	Org *Addr      // VSlice made from an addressable array (cell or field): writes go back there
	Ty  types.Type // static type where known (struct values)
}

// FuncVal describes a statically known function value.
type FuncVal struct {
	Fn       *ssa.Function
	Bindings []Val // free variable bindings of a closure
	Bound    *Val  // receiver of a bound-method closure
	Alts     []FuncAlt // a function value that is one of several statically known closures
	Roles    []string  // per binding: the struct field the bound value was loaded from (role contracts)
}

// FuncAlt is one alternative of a merged function value, selected when Cond holds.
type FuncAlt struct {
	Cond *Term
	F    *FuncVal
}

type AddrKind int

const (
	ACell  AddrKind = iota // local variable cell (optionally a field path inside a struct value / array)
	AField                 // field of a heap object: Ref, StructT, Idx
	AElem                  // element of a slice backing array
	AMem                   // pointee of a pointer to a non-struct type
	AGlobal
	AArr // a whole array living in the heap (backing array Arr, N elements of type ET)
)

type Addr struct {
	K      AddrKind
	Cell   *ssa.Alloc
	CellID int // disambiguates cells of different inlined frames
	Path   []int
	Ref    *Term
	ST     types.Type // struct type for AField
	Idx    int
	Arr    *Term
	Index  *Term
	ET     types.Type // element / pointee type
	N      int64
	Glob   *ssa.Global
}

type cellKey struct {
	A  *ssa.Alloc
	ID int
}

// State is a symbolic program state.
type State struct {
	pc        *Term
	cells     map[cellKey]Val
	heap      map[string]*Term
	defers    []deferred
	untouched []string // heap maps havocked before their first access in this state
	preserved []string // heap maps exempt from a whole-heap havoc (epoch) because a contract preserves them
	epoch     string   // non-empty after a havoc of the whole heap: first accesses see fresh maps
}

type deferred struct {
	call *ssa.Defer
	fr   *frame
}

func (s *State) clone() *State {
	n := &State{pc: s.pc, cells: make(map[cellKey]Val, len(s.cells)), heap: make(map[string]*Term, len(s.heap))}
	for k, v := range s.cells {
		n.cells[k] = v
	}
	for k, v := range s.heap {
		n.heap[k] = v
	}
	n.defers = append([]deferred{}, s.defers...)
	n.untouched = append([]string{}, s.untouched...)
	n.preserved = append([]string{}, s.preserved...)
	n.epoch = s.epoch
	return n
}

func scalar(t *Term) Val { return Val{K: VScalar, T: t} }

// ---------------------------------------------------------------- merging

func (vc *VC) mergeVal(conds []*Term, vs []Val, what string) Val {
	p := vc.P
	v0 := vs[0]
	same := true
	for _, v := range vs[1:] {
		if !valEq(v0, v) {
			same = false
			break
		}
	}
	if same {
		return v0
	}
	for _, v := range vs[1:] {
		if v.K != v0.K {
			vc.note("merge of different value kinds at %s; havocked", what)
			return vc.freshOfKindLike(v0, what)
		}
	}
	switch v0.K {
	case VScalar:
		t := vs[len(vs)-1].T
		for i := len(vs) - 2; i >= 0; i-- {
			if vs[i].T.S != t.S {
				vc.note("merge of different sorts at %s", what)
				return v0
			}
			t = p.Ite(conds[i], vs[i].T, t)
		}
		r := scalar(t)
		// keep static function info: identical, or a case split over the alternatives
		r.Fn = v0.Fn
		same := true
		allKnown := v0.Fn != nil
		for _, v := range vs[1:] {
			if v.Fn != v0.Fn {
				same = false
			}
			if v.Fn == nil {
				allKnown = false
			}
		}
		if !same {
			r.Fn = nil
			if allKnown {
				fv := &FuncVal{}
				for i, v := range vs {
					c := conds[i]
					if len(v.Fn.Alts) > 0 {
						for _, a := range v.Fn.Alts {
							fv.Alts = append(fv.Alts, FuncAlt{p.And(c, a.Cond), a.F})
						}
					} else {
						fv.Alts = append(fv.Alts, FuncAlt{c, v.Fn})
					}
				}
				r.Fn = fv
			}
		}
		return r
	case VSlice:
		pick := func(f func(Val) *Term) *Term {
			t := f(vs[len(vs)-1])
			for i := len(vs) - 2; i >= 0; i-- {
				t = p.Ite(conds[i], f(vs[i]), t)
			}
			return t
		}
		r := Val{K: VSlice,
			Arr: pick(func(v Val) *Term { return v.Arr }),
			Off: pick(func(v Val) *Term { return v.Off }),
			Len: pick(func(v Val) *Term { return v.Len }),
			Cap: pick(func(v Val) *Term { return v.Cap })}
		return r
	case VStruct:
		r := Val{K: VStruct, Ty: v0.Ty, Fs: make([]Val, len(v0.Fs))}
		for i := range v0.Fs {
			sub := make([]Val, len(vs))
			for j, v := range vs {
				if len(v.Fs) != len(v0.Fs) {
					vc.note("merge of structs with different arity at %s", what)
					return v0
				}
				sub[j] = v.Fs[i]
			}
			r.Fs[i] = vc.mergeVal(conds, sub, what)
		}
		return r
	case VAddr:
		vc.note("merge of different addresses at %s; first kept (unsound if used)", what)
		vc.unsound("address merge at " + what)
		return v0
	}
	return v0
}

func (vc *VC) freshOfKindLike(v Val, what string) Val {
	switch v.K {
	case VScalar:
		return scalar(vc.P.Fresh("mix", v.T.S))
	case VSlice:
		return vc.freshSlice(what)
	}
	return v
}

func valEq(a, b Val) bool {
	if a.K != b.K {
		return false
	}
	switch a.K {
	case VScalar:
		return a.T == b.T && a.Fn == b.Fn
	case VSlice:
		return a.Arr == b.Arr && a.Off == b.Off && a.Len == b.Len && a.Cap == b.Cap
	case VStruct:
		if len(a.Fs) != len(b.Fs) {
			return false
		}
		for i := range a.Fs {
			if !valEq(a.Fs[i], b.Fs[i]) {
				return false
			}
		}
		return true
	case VAddr:
		return addrEq(a.A, b.A)
	}
	return false
}

func addrEq(a, b *Addr) bool {
	if a == b {
		return true
	}
	if a == nil || b == nil || a.K != b.K {
		return false
	}
	switch a.K {
	case ACell:
		if a.Cell != b.Cell || a.CellID != b.CellID || len(a.Path) != len(b.Path) {
			return false
		}
		for i := range a.Path {
			if a.Path[i] != b.Path[i] {
				return false
			}
		}
		return true
	case AField:
		return a.Ref == b.Ref && a.Idx == b.Idx && types.Identical(a.ST, b.ST)
	case AElem:
		return a.Arr == b.Arr && a.Index == b.Index
	case AMem:
		return a.Ref == b.Ref
	case AGlobal:
		return a.Glob == b.Glob
	case AArr:
		return a.Arr == b.Arr
	}
	return false
}

// mergeStates joins states whose path conditions are pairwise exclusive.
func (vc *VC) mergeStates(sts []*State, what string) *State {
	if len(sts) == 1 {
		return sts[0]
	}
	p := vc.P
	conds := make([]*Term, len(sts))
	pcs := make([]*Term, len(sts))
	for i, s := range sts {
		conds[i] = s.pc
		pcs[i] = s.pc
	}
	out := &State{pc: p.Or(pcs...), cells: map[cellKey]Val{}, heap: map[string]*Term{}}
	// cells: union of keys; a cell missing on some path keeps the value of a path that has it
	keys := map[cellKey]bool{}
	for _, s := range sts {
		for k := range s.cells {
			keys[k] = true
		}
	}
	for k := range keys {
		var vs []Val
		var cs []*Term
		for i, s := range sts {
			if v, ok := s.cells[k]; ok {
				vs = append(vs, v)
				cs = append(cs, conds[i])
			}
		}
		out.cells[k] = vc.mergeVal(cs, vs, "cell "+k.A.Comment)
	}
	hkeys := map[string]bool{}
	for _, s := range sts {
		for k := range s.heap {
			hkeys[k] = true
		}
	}
	hk := make([]string, 0, len(hkeys))
	for k := range hkeys {
		hk = append(hk, k)
	}
	sort.Strings(hk)
	for _, k := range hk {
		var t *Term
		for i := len(sts) - 1; i >= 0; i-- {
			h, ok := sts[i].heap[k]
			if !ok {
				h = vc.heapDefault(sts[i], k, vc.heapSort[k])
			}
			if t == nil {
				t = h
			} else {
				t = p.Ite(conds[i], h, t)
			}
		}
		out.heap[k] = t
	}
	for i, s := range sts {
		if i == 0 {
			out.preserved = append([]string{}, s.preserved...)
		} else {
			var keep []string
			for _, k := range out.preserved {
				for _, k2 := range s.preserved {
					if k == k2 {
						keep = append(keep, k)
					}
				}
			}
			out.preserved = keep
		}
		for _, u := range s.untouched {
			out.untouched = appendUnique(out.untouched, u)
		}
		if s.epoch != "" {
			out.epoch = s.epoch
		}
	}
	// defers: must agree
	out.defers = sts[0].defers
	for _, s := range sts[1:] {
		if len(s.defers) != len(out.defers) {
			// keep the longest common prefix; a conditional defer is outside the subset
			vc.note("conditional defer at %s: deferred calls after the join are dropped", what)
			vc.unsound("conditional defer at " + what)
			if len(s.defers) < len(out.defers) {
				out.defers = s.defers
			}
		}
	}
	return out
}

// ---------------------------------------------------------------- heap maps

// heapSorts remembers the sort of every heap map that was ever touched.
func (vc *VC) heapGet(st *State, key string, s Sort) *Term {
	if t, ok := st.heap[key]; ok {
		return t
	}
	t := vc.heapDefault(st, key, s)
	st.heap[key] = t
	return t
}

// heapDefault is the value of a heap map on its first access in st: the entry value, unless the map
// was havocked (by a loop, a call or a whole-heap havoc) before it was ever read.
func (vc *VC) heapDefault(st *State, key string, s Sort) *Term {
	vc.heapInit(key, &s) // registers sort and entry variable
	hav := st.epoch != ""
	for _, u := range st.preserved {
		if u == key {
			hav = false
		}
	}
	for _, u := range st.untouched {
		if u == key {
			hav = true
		}
	}
	if hav {
		return vc.P.Fresh(key+"@hv", s)
	}
	return vc.heap0[key]
}

// heapInit returns the entry-state term for a heap map (the same for all states of one VC run).
func (vc *VC) heapInit(key string, s *Sort) *Term {
	if t, ok := vc.heap0[key]; ok {
		return t
	}
	if s == nil {
		panic("heapInit: unknown sort for " + key)
	}
	t := vc.P.Var(key+"@0", *s)
	vc.heap0[key] = t
	vc.heapSort[key] = *s
	return t
}

func (vc *VC) heapSet(st *State, key string, t *Term) {
	if _, ok := vc.heapSort[key]; !ok {
		vc.heapSort[key] = t.S
		vc.heap0[key] = vc.P.Var(key+"@0", t.S)
	}
	st.heap[key] = t
}

const allocKey = "$A"

func (vc *VC) allocCounter(st *State) *Term { return vc.heapGet(st, allocKey, SInt) }

// newRef allocates a fresh reference (greater than every reference allocated so far).
func (vc *VC) newRef(st *State, what string) *Term {
	a := vc.allocCounter(st)
	r := vc.P.Add(a, vc.P.Int(1))
	// name it for readability of models
	nv := vc.P.Fresh("new$"+what, SInt)
	vc.assume(st, vc.P.Eq(nv, r))
	vc.heapSet(st, allocKey, nv)
	return nv
}

func sortOfTK(k TK) Sort {
	if k == TKBool {
		return SBool
	}
	return SInt
}

type comp struct {
	suffix string
	sort   Sort
}

var sliceComps = []comp{{"#arr", SInt}, {"#off", SInt}, {"#len", SInt}, {"#cap", SInt}}

// loadAt reads a value of type t from a family of maps keyed by base at index idx (a ref),
// where mapSort(elem) gives the sort of the map for an element sort.
func (vc *VC) loadMaps(st *State, base string, idx []*Term, t types.Type) Val {
	p := vc.P
	sel := func(key string, es Sort) *Term {
		s := es
		for range idx {
			s = ArrSort(SInt, s)
		}
		m := vc.heapGet(st, key, s)
		for _, i := range idx {
			m = p.Select(m, i)
		}
		return m
	}
	switch classify(t) {
	case TKBool:
		return scalar(sel(base, SBool))
	case TKInt:
		v := scalar(sel(base, SInt))
		vc.assumeType(st, v, t)
		if isRefType(t) {
			vc.refAxiom(base, len(idx))
		}
		return v
	case TKSlice:
		v := Val{K: VSlice, Arr: sel(base+"#arr", SInt), Off: sel(base+"#off", SInt), Len: sel(base+"#len", SInt), Cap: sel(base+"#cap", SInt)}
		vc.assumeType(st, v, t)
		vc.refAxiom(base+"#arr", len(idx)) // backing arrays stored in the entry heap were allocated at entry
		return v
	}
	panic(fmt.Sprintf("loadMaps: unsupported type %s at %s", t, base))
}

func (vc *VC) storeMaps(st *State, base string, idx []*Term, t types.Type, v Val) {
	p := vc.P
	upd := func(key string, es Sort, nv *Term) {
		s := es
		for range idx {
			s = ArrSort(SInt, s)
		}
		m := vc.heapGet(st, key, s)
		// nested store
		var rec func(m *Term, k int) *Term
		rec = func(m *Term, k int) *Term {
			if k == len(idx)-1 {
				return p.Store(m, idx[k], nv)
			}
			return p.Store(m, idx[k], rec(p.Select(m, idx[k]), k+1))
		}
		if len(idx) == 0 {
			vc.heapSet(st, key, nv)
			return
		}
		vc.heapSet(st, key, rec(m, 0))
	}
	switch classify(t) {
	case TKBool:
		upd(base, SBool, vc.asBool(v))
	case TKInt:
		upd(base, SInt, vc.asInt(v))
	case TKSlice:
		if v.K != VSlice {
			vc.note("storing non-slice value into slice location %s", base)
			v = vc.freshSlice(base)
		}
		upd(base+"#arr", SInt, v.Arr)
		upd(base+"#off", SInt, v.Off)
		upd(base+"#len", SInt, v.Len)
		upd(base+"#cap", SInt, v.Cap)
	default:
		panic(fmt.Sprintf("storeMaps: unsupported type %s at %s", t, base))
	}
}

func (vc *VC) asInt(v Val) *Term {
	if v.K == VScalar && v.T.S == SInt {
		return v.T
	}
	if v.K == VAddr {
		vc.note("address used as a first-class value; replaced by an unknown reference")
		return vc.P.Fresh("addrref", SInt)
	}
	if v.K == VScalar && v.T.S == SBool {
		return vc.P.Ite(v.T, vc.P.Int(1), vc.P.Int(0))
	}
	vc.note("non-scalar used as Int")
	return vc.P.Fresh("bad", SInt)
}

func (vc *VC) asBool(v Val) *Term {
	if v.K == VScalar && v.T.S == SBool {
		return v.T
	}
	vc.note("non-bool used as Bool")
	return vc.P.Fresh("badb", SBool)
}

// subRef is the reference of a struct embedded by value as field idx of struct type st at ref.
func (vc *VC) subRef(st *State, ref *Term, stT types.Type, idx int) *Term {
	p := vc.P
	s, _ := structOf(stT)
	name := "sub$" + typeKey(stT) + "." + s.Field(idx).Name()
	r := p.App(name, SInt, ref)
	// instantiate the axioms of sub: negative, injective (via inverse), tagged by kind
	k := name
	if !vc.subSeen[r] {
		vc.subSeen[r] = true
		id := vc.E.kindID(k)
		vc.assumeGlobal(p.Lt(r, p.Int(0)))
		vc.assumeGlobal(p.Eq(p.App("par$"+name, SInt, r), ref))
		vc.assumeGlobal(p.Eq(p.App("refkind", SInt, r), p.Int(int64(id))))
		vc.assumeGlobal(p.Eq(p.App("rootof", SInt, r), p.Ite(p.Le(p.Int(0), ref), ref, p.App("rootof", SInt, ref))))
	}
	return r
}

// elemRef is the reference of the idx-th element of a backing array whose elements are structs by value.
func (vc *VC) elemRef(st *State, arr, idx *Term, et types.Type) *Term {
	p := vc.P
	name := "elem$" + typeKey(et)
	r := p.App(name, SInt, arr, idx)
	if !vc.subSeen[r] {
		vc.subSeen[r] = true
		vc.assumeGlobal(p.Lt(r, p.Int(0)))
		vc.assumeGlobal(p.Eq(p.App("par$"+name, SInt, r), arr))
		vc.assumeGlobal(p.Eq(p.App("idx$"+name, SInt, r), idx))
		vc.assumeGlobal(p.Eq(p.App("rootof", SInt, r), p.Ite(p.Le(p.Int(0), arr), arr, p.App("rootof", SInt, arr))))
		vc.assumeGlobal(p.Eq(p.App("refkind", SInt, r), p.Int(int64(vc.E.kindID(name)))))
	}
	return r
}

// loadStruct reads a whole struct value of type t stored at ref.
func (vc *VC) loadStruct(st *State, ref *Term, t types.Type) Val {
	s, _ := structOf(t)
	v := Val{K: VStruct, Ty: t, Fs: make([]Val, s.NumFields())}
	for i := 0; i < s.NumFields(); i++ {
		v.Fs[i] = vc.loadField(st, ref, t, i)
	}
	return v
}

func (vc *VC) loadField(st *State, ref *Term, t types.Type, i int) Val {
	s, _ := structOf(t)
	ft := s.Field(i).Type()
	if _, ok := structOf(ft); ok {
		return vc.loadStruct(st, vc.subRef(st, ref, t, i), ft)
	}
	return vc.loadMaps(st, fieldMapKey(t, i), []*Term{ref}, ft)
}

func (vc *VC) storeStruct(st *State, ref *Term, t types.Type, v Val) {
	s, _ := structOf(t)
	if v.K != VStruct || len(v.Fs) != s.NumFields() {
		vc.note("store of non-struct value into struct %s; fields havocked", typeKey(t))
		v = vc.freshVal(st, t, "badstruct")
	}
	for i := 0; i < s.NumFields(); i++ {
		vc.storeField(st, ref, t, i, v.Fs[i])
	}
}

func (vc *VC) storeField(st *State, ref *Term, t types.Type, i int, v Val) {
	s, _ := structOf(t)
	ft := s.Field(i).Type()
	if _, ok := structOf(ft); ok {
		vc.storeStruct(st, vc.subRef(st, ref, t, i), ft, v)
		return
	}
	vc.storeMaps(st, fieldMapKey(t, i), []*Term{ref}, ft, v)
	vc.written[fieldMapKey(t, i)] = true
}

// zeroVal is the Go zero value of type t.
func (vc *VC) zeroVal(st *State, t types.Type) Val {
	p := vc.P
	switch classify(t) {
	case TKBool:
		return scalar(p.False())
	case TKInt:
		if isUint256(t) {
			return scalar(p.Int(0))
		}
		if _, ok := t.Underlying().(*types.Array); ok {
			return scalar(p.App("zeroarr$"+typeKey(t), SInt))
		}
		if isOpaqueNamed(t) {
			return scalar(p.App("zero$"+typeKey(t), SInt))
		}
		return scalar(p.Int(0))
	case TKSlice:
		return Val{K: VSlice, Arr: p.Int(0), Off: p.Int(0), Len: p.Int(0), Cap: p.Int(0)}
	case TKStruct:
		s, _ := structOf(t)
		v := Val{K: VStruct, Ty: t, Fs: make([]Val, s.NumFields())}
		for i := range v.Fs {
			v.Fs[i] = vc.zeroVal(st, s.Field(i).Type())
		}
		return v
	case TKTuple:
		tu := t.(*types.Tuple)
		v := Val{K: VStruct, Fs: make([]Val, tu.Len())}
		for i := range v.Fs {
			v.Fs[i] = vc.zeroVal(st, tu.At(i).Type())
		}
		return v
	}
	panic("zeroVal")
}

func (vc *VC) freshSlice(what string) Val {
	p := vc.P
	return Val{K: VSlice, Arr: p.Fresh(what+"#arr", SInt), Off: p.Fresh(what+"#off", SInt), Len: p.Fresh(what+"#len", SInt), Cap: p.Fresh(what+"#cap", SInt)}
}

// freshVal makes an unconstrained value of type t (with its type invariants assumed).
func (vc *VC) freshVal(st *State, t types.Type, what string) Val {
	p := vc.P
	var v Val
	switch classify(t) {
	case TKBool:
		v = scalar(p.Fresh(what, SBool))
	case TKInt:
		v = scalar(p.Fresh(what, SInt))
	case TKSlice:
		v = vc.freshSlice(what)
	case TKStruct:
		s, _ := structOf(t)
		v = Val{K: VStruct, Ty: t, Fs: make([]Val, s.NumFields())}
		for i := range v.Fs {
			v.Fs[i] = vc.freshVal(st, s.Field(i).Type(), what+"."+s.Field(i).Name())
		}
		return v
	case TKTuple:
		tu := t.(*types.Tuple)
		v = Val{K: VStruct, Fs: make([]Val, tu.Len())}
		for i := range v.Fs {
			v.Fs[i] = vc.freshVal(st, tu.At(i).Type(), fmt.Sprintf("%s.%d", what, i))
		}
		return v
	}
	vc.assumeType(st, v, t)
	return v
}

// assumeType adds the type invariants of a value (integer range, slice shape, allocatedness of refs).
func (vc *VC) assumeType(st *State, v Val, t types.Type) {
	p := vc.P
	switch v.K {
	case VScalar:
		if v.T.S != SInt || v.T.Op == "int" {
			return
		}
		if vc.typed[v.T] {
			return
		}
		vc.typed[v.T] = true
		if lo, hi, ok := intRange(t); ok {
			l, _ := newBig(lo)
			h, _ := newBig(hi)
			vc.assumeGlobal(p.And(p.Le(p.BigInt(l), v.T), p.Le(v.T, p.BigInt(h))))
			return
		}
		switch u := t.Underlying().(type) {
		case *types.Pointer:
			vc.assume(st, p.Le(v.T, vc.allocCounter(st)))
			if isUint256(u.Elem()) {
				// value range of the pointee is assumed at the load of the pointee
			}
			if _, ok := structOf(u.Elem()); ok {
				// pointers to structs that come from the heap or the caller are roots or nil, never interior
				// (interior pointers are created only by FieldAddr in this function)
			}
		case *types.Map, *types.Chan:
			vc.assume(st, p.And(p.Le(p.Int(0), v.T), p.Le(v.T, vc.allocCounter(st))))
		case *types.Interface:
			vc.assume(st, p.Le(v.T, vc.allocCounter(st)))
		}
		if isString(t) {
			vc.assumeGlobal(p.Le(p.Int(0), p.App("strlen", SInt, v.T)))
		}
	case VSlice:
		if vc.typed[v.Len] && vc.typed[v.Arr] {
			return
		}
		vc.typed[v.Len] = true
		vc.typed[v.Arr] = true
		vc.assume(st, p.And(
			p.Le(p.Int(0), v.Off), p.Le(p.Int(0), v.Len), p.Le(v.Len, v.Cap),
			p.Le(p.Int(0), v.Arr), p.Le(v.Arr, vc.allocCounter(st)),
			p.Implies(p.Eq(v.Arr, p.Int(0)), p.And(p.Eq(v.Len, p.Int(0)), p.Eq(v.Cap, p.Int(0)))),
			p.Le(p.Add(v.Off, v.Cap), p.Int(1<<40)),
		))
	}
}

func isRefType(t types.Type) bool {
	if isOpaqueNamed(t) {
		return false
	}
	switch t.Underlying().(type) {
	case *types.Pointer, *types.Map, *types.Chan, *types.Interface, *types.Signature:
		return true
	}
	_, ok := t.(*types.TypeParam)
	return ok
}

// refAxiom states the heap typing of the entry state for a map holding references: every reference stored
// in it at entry was allocated at entry (<= $A@0). Emitted once per map.
func (vc *VC) refAxiom(key string, levels int) {
	if vc.refAx[key] {
		return
	}
	vc.refAx[key] = true
	h0, ok := vc.heap0[key]
	if !ok {
		return
	}
	a0 := vc.heap0[allocKey]
	if a0 == nil {
		return
	}
	p := vc.P
	var vars []*Term
	t := h0
	for i := 0; i < levels; i++ {
		vc.qSeq++
		v := p.Var(fmt.Sprintf("h?%d", vc.qSeq), SInt)
		vars = append(vars, v)
		t = p.Select(t, v)
	}
	if t.S != SInt {
		return
	}
	vc.assumeGlobal(p.Forall(vars, p.Le(t, a0)))
}
