package govc

import (
	"fmt"
	"go/token"
	"go/types"

	"golang.org/x/tools/go/ssa"
)

// computeAnchors labels the stores to struct fields and the calls of a function with stable names:
// store(Type.field,k) and call(Name,k), k counting occurrences in block order.
func computeAnchors(fn *ssa.Function) map[ssa.Instruction]string {
	out := map[ssa.Instruction]string{}
	cnt := map[string]int{}
	for _, b := range fn.Blocks {
		for _, ins := range b.Instrs {
			switch x := ins.(type) {
			case *ssa.Store:
				if fa, ok := x.Addr.(*ssa.FieldAddr); ok {
					stT := fa.X.Type().Underlying().(*types.Pointer).Elem()
					if s, ok := structOf(stT); ok {
						tn := typeKey(stT)
						if n, ok := stT.(*types.Named); ok {
							tn = n.Origin().Obj().Name()
						}
						base := "store(" + tn + "." + s.Field(fa.Field).Name()
						out[ins] = fmt.Sprintf("%s,%d)", base, cnt[base])
						cnt[base]++
					}
				}
			case *ssa.Call:
				name := ""
				if x.Call.IsInvoke() {
					name = x.Call.Method.Name()
				} else if f := x.Call.StaticCallee(); f != nil {
					name = f.Name()
				}
				if name != "" {
					base := "call(" + name
					out[ins] = fmt.Sprintf("%s,%d)", base, cnt[base])
					cnt[base]++
				}
			}
		}
	}
	return out
}

func (vc *VC) checkAnchorsBound(fr *frame) {
	have := map[string]bool{}
	for _, l := range fr.anchors {
		have[l] = true
	}
	for _, cl := range fr.contract.Asserts {
		if !have[cl.Label] {
			st := &State{pc: vc.P.True(), cells: map[cellKey]Val{}, heap: map[string]*Term{}}
			vc.oblige(st, "binding", "assert@"+cl.Label, "the contract anchors an assertion at "+cl.Label+" but the function has no such instruction", vc.P.False(), cl.Tags, fr.fn.Pos(), false)
		}
	}
}

func (vc *VC) anchorAsserts(fr *frame, st *State, label string, extra map[string]EV, pos token.Pos) {
	for _, cl := range fr.contract.Asserts {
		if cl.Label != label {
			continue
		}
		g := vc.evalClause(fr, st, cl, extra)
		vc.oblige(st, "assert", fr.prefix+label+"."+fmt.Sprint(cl.Idx), "assertion at "+label+": "+cl.Text, g, cl.Tags, pos, false)
		vc.assume(st, g)
	}
}
