package govc

import (
	"fmt"
	"go/token"
	"go/types"
	"sort"
	"strings"

	"golang.org/x/tools/go/ssa"
)

// computeAnchors labels the stores to struct fields and the calls of a function with stable names:
// store(Type.field,k) and call(Name,k), k counting occurrences in block order.
func computeAnchors(fn *ssa.Function) map[ssa.Instruction]string {
	out := map[ssa.Instruction]string{}
	cnt := map[string]int{}
	for _, b := range fn.Blocks {
		for _, ins := range b.Instrs {
			switch x := ins.(type) {
			case *ssa.Store:
				if fa, ok := x.Addr.(*ssa.FieldAddr); ok {
					stT := fa.X.Type().Underlying().(*types.Pointer).Elem()
					if s, ok := structOf(stT); ok {
						tn := typeKey(stT)
						if n, ok := stT.(*types.Named); ok {
							tn = n.Origin().Obj().Name()
						}
						base := "store(" + tn + "." + s.Field(fa.Field).Name()
						out[ins] = fmt.Sprintf("%s,%d)", base, cnt[base])
						cnt[base]++
					}
				}
			case *ssa.Call:
				name := ""
				if x.Call.IsInvoke() {
					name = x.Call.Method.Name()
				} else if f := x.Call.StaticCallee(); f != nil {
					name = f.Name()
					if i := strings.Index(name, "["); i > 0 {
						name = name[:i] // instantiation of a generic function: the generic's name
					}
				} else if u, ok := x.Call.Value.(*ssa.UnOp); ok && u.Op == token.MUL {
					// a call through a function value held in a named local variable: the variable's name
					if al, ok := u.X.(*ssa.Alloc); ok && al.Comment != "" {
						name = al.Comment
					} else if fv, ok := u.X.(*ssa.FreeVar); ok {
						name = fv.Name() // a captured function variable
					}
				} else if prm, ok := x.Call.Value.(*ssa.Parameter); ok {
					name = prm.Name() // a function-typed parameter
				} else if fv, ok := x.Call.Value.(*ssa.FreeVar); ok {
					name = fv.Name()
				}
				if name != "" {
					base := "call(" + name
					out[ins] = fmt.Sprintf("%s,%d)", base, cnt[base])
					cnt[base]++
				}
			}
		}
	}
	return out
}

func (vc *VC) checkAnchorsBound(fr *frame) {
	have := map[string]bool{}
	for _, l := range fr.anchors {
		have[l] = true
	}
	for _, cl := range fr.contract.Asserts {
		if !have[strings.TrimPrefix(strings.TrimPrefix(cl.Label, "post:"), "after:")] {
			st := &State{pc: vc.P.True(), cells: map[cellKey]Val{}, heap: map[string]*Term{}}
			var avail []string
			for l := range have {
				avail = append(avail, l)
			}
			sort.Strings(avail)
			if len(avail) > 40 {
				avail = avail[:40]
			}
			vc.oblige(st, "binding", "assert@"+cl.Label, "the contract anchors an assertion at "+cl.Label+" but the function has no such instruction (anchors present: "+strings.Join(avail, " ")+")", vc.P.False(), cl.Tags, fr.fn.Pos(), false)
		}
	}
}

// anchorPost assumes the callback invariants of a call after it (see cbinv@ in contract.go).
func (vc *VC) anchorPost(fr *frame, st *State, label string) {
	for _, cl := range fr.contract.Asserts {
		if cl.Label != "post:"+label {
			continue
		}
		vc.assume(st, vc.evalClause(fr, st, cl, nil))
		vc.note("callback invariant assumed after %s (each invocation of the callback preserves it by the callback's own contract): %s", cl.Label, cl.Text)
	}
}

func (vc *VC) anchorAsserts(fr *frame, st *State, label string, extra map[string]EV, pos token.Pos) {
	for _, cl := range fr.contract.Asserts {
		if cl.Label != label && cl.Label != "post:"+label {
			continue
		}
		g := vc.evalClause(fr, st, cl, extra)
		vc.oblige(st, "assert", fr.prefix+label+"."+fmt.Sprint(cl.Idx), "assertion at "+label+": "+cl.Text, g, cl.Tags, pos, false)
		vc.assume(st, g)
	}
}

// markMust records that an anchored instruction named by a must@ clause has been executed on this path.
func (vc *VC) markMust(fr *frame, st *State, label string) {
	if fr.contract == nil || fr.fn != vc.Fn {
		return
	}
	for _, cl := range fr.contract.Musts {
		if cl.Label == label {
			st.heap["ghost$must:"+label] = vc.P.True()
		}
	}
}

// anchorAfter proves the after@ clauses of a call right after it returned; $result / $result<i> name its results.
func (vc *VC) anchorAfter(fr *frame, st *State, label string, res Val, rt types.Type, pos token.Pos) {
	for _, cl := range fr.contract.Asserts {
		if cl.Label != "after:"+label {
			continue
		}
		extra := map[string]EV{}
		if tu, ok := rt.(*types.Tuple); ok && res.K == VStruct {
			for i := 0; i < tu.Len() && i < len(res.Fs); i++ {
				extra[fmt.Sprintf("$result%d", i)] = EV{V: res.Fs[i], T: tu.At(i).Type()}
			}
		} else {
			extra["$result"] = EV{V: res, T: rt}
		}
		g := vc.evalClause(fr, st, cl, extra)
		vc.oblige(st, "assert", fr.prefix+"after."+label+"."+fmt.Sprint(cl.Idx), "assertion after "+label+": "+cl.Text, g, cl.Tags, pos, false)
		vc.assume(st, g)
	}
}
