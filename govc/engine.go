package govc

import (
	"fmt"
	"go/types"
	"os"
	"path/filepath"
	"sort"
	"strings"
	"time"

	"golang.org/x/tools/go/packages"
	"golang.org/x/tools/go/ssa"
	"golang.org/x/tools/go/ssa/ssautil"
)

// Load type-checks the given packages of the repository's current working tree with the build tag
// `verif`, builds naive-form SSA and reads the contract files.
func Load(repoDir, repoMod string, patterns []string, specDir string) (*Engine, error) {
	start := time.Now()
	cfg := &packages.Config{
		Mode:       packages.LoadAllSyntax,
		Dir:        repoDir,
		BuildFlags: []string{"-tags=verif"},
		Env:        append(os.Environ(), "GOFLAGS=-mod=mod", "GOPROXY=off", "GOSUMDB=off", "GOTOOLCHAIN=local"),
	}
	pkgs, err := packages.Load(cfg, patterns...)
	if err != nil {
		return nil, err
	}
	var errs []string
	packages.Visit(pkgs, nil, func(p *packages.Package) {
		for _, e := range p.Errors {
			errs = append(errs, e.Error())
		}
	})
	if len(errs) > 0 {
		if len(errs) > 10 {
			errs = errs[:10]
		}
		return nil, fmt.Errorf("package errors:\n%s", strings.Join(errs, "\n"))
	}
	prog, spkgs := ssautil.AllPackages(pkgs, ssa.NaiveForm)
	e := &Engine{Prog: prog, Pkgs: map[string]*ssa.Package{}, DB: NewSpecDB(), RepoDir: repoDir, RepoMod: repoMod,
		kinds: map[string]int{}, tags: map[string]int{}, funcs: map[string]*ssa.Function{}, strLits: map[string]int{},
		stableGlobals: map[*ssa.Global]bool{}, sentinels: map[*ssa.Global]int{}}
	_ = spkgs
	for _, sp := range prog.AllPackages() {
		if e.inRepo(sp.Pkg) {
			sp.Build()
			e.Pkgs[sp.Pkg.Path()] = sp
		}
	}
	// dependency packages whose bodies we never inline are not built (saves most of the time);
	// the sentinel scan needs the init of xerrors only (a repository package).
	// index functions
	for _, sp := range e.Pkgs {
		for _, m := range sp.Members {
			switch x := m.(type) {
			case *ssa.Function:
				e.funcs[FuncKey(x)] = x
				e.indexAnon(x)
			case *ssa.Type:
				nt, ok := x.Type().(*types.Named)
				if !ok {
					continue
				}
				for i := 0; i < nt.NumMethods(); i++ {
					if f := prog.FuncValue(nt.Method(i)); f != nil {
						e.funcs[FuncKey(f)] = f
						e.indexAnon(f)
					}
				}
			}
		}
	}
	// contract files: <pkgdir>/zz_contracts_verif.go of every loaded repository package
	packages.Visit(pkgs, nil, func(p *packages.Package) {
		if p.Types == nil || !e.inRepo(p.Types) {
			return
		}
		for _, f := range p.GoFiles {
			if strings.HasSuffix(f, "_verif.go") && strings.HasPrefix(filepath.Base(f), "zz_contracts") {
				if err := e.DB.LoadFile(f, p.Types.Path(), false); err != nil {
					e.DB.Errors = append(e.DB.Errors, err.Error())
				}
			}
		}
	})
	if specDir != "" {
		files, _ := filepath.Glob(filepath.Join(specDir, "*.spec"))
		sort.Strings(files)
		for _, f := range files {
			if err := e.DB.LoadFile(f, "", true); err != nil {
				e.DB.Errors = append(e.DB.Errors, err.Error())
			}
		}
	}
	e.DB.ResolveSameAs()
	e.scanGlobals()
	e.LoadSecs = time.Since(start).Seconds()
	return e, nil
}

// FuncByKey finds a repository function by contract key.
func (e *Engine) FuncByKey(key string) *ssa.Function { return e.funcs[key] }

// scanGlobals classifies package-level variables: a global that is stored only by its package
// initialiser is stable; stable globals of interface type initialised in package xerrors are
// error sentinels (non-nil, pairwise distinct).
func (e *Engine) scanGlobals() {
	stored := map[*ssa.Global]bool{}
	for _, sp := range e.Pkgs {
		for _, m := range sp.Members {
			fn, ok := m.(*ssa.Function)
			if ok {
				e.scanStores(fn, stored)
			}
			if t, ok := m.(*ssa.Type); ok {
				if nt, ok := t.Type().(*types.Named); ok {
					for i := 0; i < nt.NumMethods(); i++ {
						if f := e.Prog.FuncValue(nt.Method(i)); f != nil {
							e.scanStores(f, stored)
						}
					}
				}
			}
		}
	}
	var sentinels []*ssa.Global
	for _, sp := range e.Pkgs {
		for _, m := range sp.Members {
			g, ok := m.(*ssa.Global)
			if !ok || stored[g] {
				continue
			}
			e.stableGlobals[g] = true
			if strings.HasSuffix(sp.Pkg.Path(), "/types/xerrors") && strings.HasPrefix(g.Name(), "Err") && isInterface(g.Type().(*types.Pointer).Elem()) {
				sentinels = append(sentinels, g)
			}
		}
	}
	sort.Slice(sentinels, func(i, j int) bool { return sentinels[i].Name() < sentinels[j].Name() })
	for i, g := range sentinels {
		e.sentinels[g] = i + 1
	}
}

func (e *Engine) scanStores(fn *ssa.Function, stored map[*ssa.Global]bool) {
	var visit func(f *ssa.Function)
	visit = func(f *ssa.Function) {
		isInit := f.Name() == "init" && f.Parent() == nil
		for _, b := range f.Blocks {
			for _, ins := range b.Instrs {
				if isInit {
					continue
				}
				// any use of the global's address other than a load counts as a possible store
				for _, op := range ins.Operands(nil) {
					if g, ok := (*op).(*ssa.Global); ok {
						if u, isLoad := ins.(*ssa.UnOp); isLoad && u.X == g {
							continue
						}
						stored[g] = true
					}
				}
			}
		}
		for _, a := range f.AnonFuncs {
			visit(a)
		}
	}
	visit(fn)
}

func (e *Engine) isStableGlobal(g *ssa.Global) bool { return e.stableGlobals[g] }
func (e *Engine) sentinelID(g *ssa.Global) (int, bool) {
	id, ok := e.sentinels[g]
	return id, ok
}

// modKeys returns the heap keys a contract's modifies clause may touch (whole maps; "*" = everything).
func (e *Engine) modKeys(ct *Contract) []string {
	if ks, ok := e.modKeyCache[ct]; ok {
		return ks
	}
	if e.modKeyCache == nil {
		e.modKeyCache = map[*Contract][]string{}
	}
	set := map[string]bool{}
	for _, cl := range ct.Modifies {
		e.locKeys(ct, cl.Expr, set)
	}
	for _, tn := range ct.Allocates {
		if t, ok := e.resolveTypeName(ct.Pkg, tn); ok {
			if _, isStruct := structOf(t); isStruct {
				heapKeysOfStore("", t, set)
			} else if sl, isSlice := t.Underlying().(*types.Slice); isSlice {
				heapKeysOfStore(elemMapKey(sl.Elem()), sl.Elem(), set)
			} else if mt, isMap := t.Underlying().(*types.Map); isMap {
				set[mapKey(mt)+"#dom"] = true
				set[mapKey(mt)+"#val"] = true
			} else {
				heapKeysOfStore(memMapKey(t), t, set)
			}
		}
	}
	var ks []string
	for k := range set {
		ks = append(ks, k)
	}
	sort.Strings(ks)
	e.modKeyCache[ct] = ks
	return ks
}

// locKeys resolves a modifies target to heap keys using static types only (parameters of the
// contract's function give the types of identifiers).
func (e *Engine) locKeys(ct *Contract, ex *Expr, out map[string]bool) {
	fn := e.funcs[ct.Key]
	var sig *types.Signature
	var paramNames []string
	var paramTypes []types.Type
	if fn != nil {
		sig = fn.Signature
		for _, p := range fn.Params {
			paramNames = append(paramNames, p.Name())
			paramTypes = append(paramTypes, p.Type())
		}
	} else if m := e.lookupMethodSig(ct); m != nil {
		sig = m.sig
		paramNames = append(paramNames, "recv")
		paramTypes = append(paramTypes, m.recv)
		for i := 0; i < sig.Params().Len(); i++ {
			paramNames = append(paramNames, sig.Params().At(i).Name())
			paramTypes = append(paramTypes, sig.Params().At(i).Type())
		}
	}
	over := []string{}
	if sig != nil && (sig.Recv() != nil || fn == nil) {
		over = append(over, ct.RecvName)
	}
	over = append(over, ct.ParamNames...)
	typeOfIdent := func(n string) types.Type {
		for i := range paramNames {
			if paramNames[i] == n || (i < len(over) && over[i] == n) {
				return paramTypes[i]
			}
		}
		return nil
	}
	var typeOf func(x *Expr) types.Type
	typeOf = func(x *Expr) types.Type {
		switch x.Kind {
		case "ident":
			return typeOfIdent(x.Name)
		case "field":
			bt := typeOf(x.Args[0])
			st, ok := derefStruct(bt)
			if !ok {
				return nil
			}
			obj, _, _ := types.LookupFieldOrMethod(st, true, nil, x.Name)
			if obj == nil {
				// unexported field of another package: search manually
				s, _ := structOf(st)
				for i := 0; i < s.NumFields(); i++ {
					if s.Field(i).Name() == x.Name {
						return s.Field(i).Type()
					}
				}
				return nil
			}
			return obj.Type()
		case "old":
			return typeOf(x.Args[0])
		case "index":
			bt := typeOf(x.Args[0])
			if bt == nil {
				return nil
			}
			switch u := bt.Underlying().(type) {
			case *types.Slice:
				return u.Elem()
			case *types.Map:
				return u.Elem()
			}
		}
		return nil
	}
	switch ex.Kind {
	case "ident":
		if ex.Name == "everything" {
			out["*"] = true
			return
		}
		if _, ok := e.DB.Ghosts[ex.Name]; ok {
			out["ghost$"+ex.Name] = true
			return
		}
		if t, ok := e.resolveTypeName(ct.Pkg, ex.Name); ok {
			heapKeysOfStore("", t, out)
			return
		}
	case "field":
		// Type.f or x.f
		var bt types.Type
		if ex.Args[0].Kind == "ident" && typeOfIdent(ex.Args[0].Name) == nil {
			if t, ok := e.resolveTypeName(ct.Pkg, ex.Args[0].Name); ok {
				bt = t
			}
		}
		if bt == nil {
			bt = typeOf(ex.Args[0])
		}
		st, ok := derefStruct(bt)
		if !ok {
			out["*"] = true
			return
		}
		s, _ := structOf(st)
		for i := 0; i < s.NumFields(); i++ {
			if s.Field(i).Name() == ex.Name || ex.Name == "*" {
				heapKeysOfStore(fieldMapKey(st, i), s.Field(i).Type(), out)
			}
		}
		return
	case "call":
		switch ex.Name {
		case "u":
			out[u256Key] = true
			return
		case "elems":
			if t := typeOf(ex.Args[0]); t != nil {
				if sl, ok := t.Underlying().(*types.Slice); ok {
					if _, isStruct := structOf(sl.Elem()); isStruct {
						heapKeysOfStore("", sl.Elem(), out)
					} else {
						heapKeysOfStore(elemMapKey(sl.Elem()), sl.Elem(), out)
					}
					return
				}
			}
		case "mapof":
			if t := typeOf(ex.Args[0]); t != nil {
				if mt, ok := t.Underlying().(*types.Map); ok {
					out[mapKey(mt)+"#dom"] = true
					out[mapKey(mt)+"#val"] = true
					return
				}
			}
		case "cell":
			// a captured variable's cell: statically its type is not known here; callers by contract see everything
			out["*"] = true
			return
		case "deref":
			if t := typeOf(ex.Args[0]); t != nil {
				if pt, ok := t.Underlying().(*types.Pointer); ok {
					heapKeysOfStore(memMapKey(pt.Elem()), pt.Elem(), out)
					return
				}
			}
		case "allof":
			if ex.Args[0].Kind == "ident" {
				if t, ok := e.resolveTypeName(ct.Pkg, ex.Args[0].Name); ok {
					heapKeysOfStore("", t, out)
					return
				}
			}
		case "allmaps", "allelems":
			if len(ex.Args) == 1 && ex.Args[0].Kind == "field" && ex.Args[0].Args[0].Kind == "ident" {
				if t, ok := e.resolveTypeName(ct.Pkg, ex.Args[0].Args[0].Name); ok {
					if s, isStruct := structOf(t); isStruct {
						for i := 0; i < s.NumFields(); i++ {
							if s.Field(i).Name() != ex.Args[0].Name {
								continue
							}
							switch ft := s.Field(i).Type().Underlying().(type) {
							case *types.Map:
								out[mapKey(ft)+"#dom"] = true
								out[mapKey(ft)+"#val"] = true
								return
							case *types.Slice:
								heapKeysOfStore(elemMapKey(ft.Elem()), ft.Elem(), out)
								return
							}
						}
					}
				}
			}
		case "mem":
			name := ""
			if ex.Args[0].Kind == "ident" {
				name = ex.Args[0].Name
			} else if ex.Args[0].Kind == "field" && ex.Args[0].Args[0].Kind == "ident" {
				name = ex.Args[0].Args[0].Name + "." + ex.Args[0].Name
			}
			if t, ok := e.resolveTypeName(ct.Pkg, name); ok {
				heapKeysOfStore(memMapKey(t), t, out)
				return
			}
		}
	}
	out["*"] = true
}

type methodSig struct {
	sig  *types.Signature
	recv types.Type
}

// lookupMethodSig finds the signature of an interface method or dependency function a contract is attached to.
func (e *Engine) lookupMethodSig(ct *Contract) *methodSig {
	// key: pkg.(Type).Method or pkg.(*Type).Method
	i := strings.LastIndex(ct.Key, ".(")
	if i < 0 {
		return nil
	}
	pkg := e.typesPkg(ct.Key[:i])
	if pkg == nil {
		return nil
	}
	rest := ct.Key[i+2:]
	j := strings.Index(rest, ").")
	if j < 0 {
		return nil
	}
	tn := strings.TrimPrefix(rest[:j], "*")
	mn := rest[j+2:]
	obj, ok := pkg.Scope().Lookup(tn).(*types.TypeName)
	if !ok {
		// role contract "(Iface_Field).Method": the interface is the part before the last underscore
		if k := strings.LastIndex(tn, "_"); k > 0 {
			obj, ok = pkg.Scope().Lookup(tn[:k]).(*types.TypeName)
		}
		if !ok {
			return nil
		}
	}
	var recv types.Type = obj.Type()
	if strings.HasPrefix(rest[:j], "*") {
		recv = types.NewPointer(recv)
	}
	if sig, isFn := obj.Type().Underlying().(*types.Signature); isFn && mn == "call" {
		return &methodSig{sig: sig, recv: obj.Type()}
	}
	m, _, _ := types.LookupFieldOrMethod(recv, true, pkg, mn)
	f, ok := m.(*types.Func)
	if !ok {
		return nil
	}
	return &methodSig{sig: f.Type().(*types.Signature), recv: recv}
}

// MathAssumed reports whether some signed machine arithmetic was treated as mathematical.
func (e *Engine) MathAssumed() bool { return e.mathAssumed }

func (e *Engine) indexAnon(f *ssa.Function) {
	for _, a := range f.AnonFuncs {
		e.funcs[FuncKey(a)] = a
		e.indexAnon(a)
	}
}
