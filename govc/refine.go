package govc

import (
	"fmt"
	"go/types"
	"sort"
	"strings"
)

// VerifyRefinement generates the obligations that the contract of an implementation refines the role
// (interface) contract it declares with `implements`: the role's precondition implies the
// implementation's, the implementation's postcondition (with its frame) implies the role's, and what
// the role promises to preserve is outside the implementation's frame. Object invariants of the
// implementation are assumed (they are established by constructors and preserved by every method).
func (e *Engine) VerifyRefinement(implKey string) (*FuncResult, error) {
	impl := e.DB.Contracts[implKey]
	fn := e.funcs[implKey]
	if impl == nil || fn == nil {
		return nil, fmt.Errorf("binding.%s: implementation or its contract not found", implKey)
	}
	rk := impl.Implements
	if !strings.Contains(rk, "/") {
		rk = impl.Pkg + "." + rk
	}
	if i := strings.Index(impl.Implements, " "); i >= 0 {
		rk = impl.Implements
	}
	role := e.DB.Contracts[rk]
	if role == nil {
		// the role may live in another repository package: search by suffix
		for k, c := range e.DB.Contracts {
			if strings.HasSuffix(k, "."+impl.Implements) {
				role = c
				rk = k
			}
		}
	}
	if role == nil {
		return nil, fmt.Errorf("binding.%s: role contract %s not found", implKey, impl.Implements)
	}
	vc := &VC{E: e, P: NewPool(), Fn: fn, C: impl, Key: shortKey(e, implKey) + "~" + shortKey(e, rk)[strings.LastIndex(shortKey(e, rk), "/")+1:], heap0: map[string]*Term{}, heapSort: map[string]Sort{},
		written: map[string]bool{}, typed: map[*Term]bool{}, subSeen: map[*Term]bool{}, counters: map[string]int{},
		refAx: map[string]bool{}, allocTypes: map[string]bool{}, usedContracts: map[string]bool{}}
	p := vc.P
	st := &State{pc: p.True(), cells: map[cellKey]Val{}, heap: map[string]*Term{}}
	vc.assumeGlobal(p.Le(p.Int(0), vc.allocCounter(st)))
	var args []Val
	for _, prm := range fn.Params {
		v := vc.freshVal(st, prm.Type(), "in$"+prm.Name())
		args = append(args, v)
		vc.assumeParamShape(st, v, prm.Type())
	}
	vc.entry = st.clone()
	vc.assumeAxioms(st)
	// the receiver seen through the interface is the implementation object itself
	recvT := fn.Params[0].Type()
	sig := fn.Signature
	roleSig := types.NewSignatureType(nil, nil, nil, sig.Params(), sig.Results(), sig.Variadic())
	rolePre := vc.contractCtx(st, nil, role, nil, roleSig, recvT, args)
	implPre := vc.contractCtx(st, nil, impl, fn, sig, nil, args)
	for _, cl := range role.Requires {
		vc.assume(st, rolePre.bool(rolePre.eval(cl.Expr), cl.Expr))
	}
	for _, cl := range impl.ObjInv {
		vc.assume(st, implPre.bool(implPre.eval(cl.Expr), cl.Expr))
	}
	for _, cl := range impl.Assumes {
		vc.assume(st, implPre.bool(implPre.eval(cl.Expr), cl.Expr))
	}
	for _, cl := range impl.Requires {
		g := implPre.bool(implPre.eval(cl.Expr), cl.Expr)
		vc.oblige(st, "refine.pre", fmt.Sprint(cl.Idx), "the role's precondition implies the implementation's: "+cl.Text, g, role.Tags, fn.Pos(), false)
		vc.assume(st, g)
	}
	old := st.clone()
	locs := vc.evalModifies(implPre, impl)
	vc.havocLocs(st, locs, "impl")
	a := vc.allocCounter(st)
	na := p.Fresh("$A@impl", SInt)
	vc.assume(st, p.Le(a, na))
	st.heap[allocKey] = na
	vc.allocatesFrame(st, old, impl, "impl")
	vc.flushTyping(st)
	var rt types.Type = sig.Results()
	if sig.Results().Len() == 1 {
		rt = sig.Results().At(0).Type()
	}
	res := vc.freshVal(st, rt, "ret")
	implPost := vc.contractCtx(st, old, impl, fn, sig, nil, args)
	bindResults(implPost, res, rt)
	for _, cl := range impl.Ensures {
		vc.assume(st, implPost.bool(implPost.eval(cl.Expr), cl.Expr))
	}
	for _, cl := range impl.ObjInv {
		vc.assume(st, implPost.bool(implPost.eval(cl.Expr), cl.Expr))
	}
	rolePost := vc.contractCtx(st, old, role, nil, roleSig, recvT, args)
	bindResults(rolePost, res, rt)
	for _, cl := range role.Ensures {
		g := rolePost.bool(rolePost.eval(cl.Expr), cl.Expr)
		vc.oblige(st, "refine.post", fmt.Sprint(cl.Idx), "the implementation's postcondition implies the role's: "+cl.Text, g, cl.Tags, fn.Pos(), false)
	}
	// frame: keys the implementation may write must be allowed by the role
	roleLocs := vc.evalModifies(rolePre, role)
	everything := false
	allowed := map[string]bool{}
	for _, l := range roleLocs {
		if l.all {
			everything = true
		} else {
			allowed[l.key] = true
		}
	}
	preserved := map[string]bool{}
	for _, cl := range role.Preserves {
		for _, l := range vc.evalLoc(rolePre, cl.Expr, role) {
			if !l.all && len(l.idx) == 0 {
				preserved[l.key] = true
			}
		}
	}
	implKeys := map[string]bool{}
	for _, l := range locs {
		if l.all {
			implKeys["*"] = true
		} else {
			implKeys[l.key] = true
		}
	}
	// (keys that come only from `allocates` concern fresh objects and are exempt from the role's frame)
	var ks []string
	for k := range implKeys {
		ks = append(ks, k)
	}
	sort.Strings(ks)
	for _, k := range ks {
		ok := false
		switch {
		case k == "*":
			ok = everything
			implPres := map[string]bool{}
			for _, cl := range impl.Preserves {
				for _, l := range vc.evalLoc(implPre, cl.Expr, impl) {
					if !l.all && len(l.idx) == 0 {
						implPres[l.key] = true
					}
				}
			}
			for pk := range preserved {
				if !implPres[pk] {
					ok = false
				}
			}
		case everything:
			ok = !preserved[k]
		default:
			ok = allowed[k]
		}
		// a preserved map may still be written at specific entries if the role's postconditions do not care;
		// we demand whole-map disjointness (coarse, never unsound)
		vc.oblige(st, "refine.frame", sanitize(k), "the implementation's frame is within the role's: "+k, p.Bool(ok), role.Tags, fn.Pos(), false)
	}
	r := &FuncResult{Key: implKey + "~refines", Obls: vc.obls, Hyps: vc.hyps, Notes: vc.notes, Unsound: vc.unsounds, SpecErrors: vc.specErrs, Pool: vc.P}
	return r, nil
}
