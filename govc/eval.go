package govc

import (
	"fmt"
	"go/types"
	"strings"

	"golang.org/x/tools/go/ssa"
)

// EV is the result of evaluating a contract expression: a symbolic value and (where known) its Go type.
// For struct types (by value) V is the reference at which the struct lives.
type EV struct {
	V Val
	T types.Type
	pkgName string // the expression named a package (for pkg.Var)
	cell    *Term  // a captured variable of a closure under contract: its heap cell (the value is read in the
	// state of the evaluation context: current state, or the pre-state inside old())
}

type evalCtx struct {
	vc     *VC
	fr     *frame // for locals of the function (loop invariants, asserts); may be nil
	fn     *ssa.Function
	st     *State
	old    *State
	names  map[string]EV // parameters (entry values) and results
	bound  map[string]*Term
	pkg    *types.Package
	useLocals bool // identifiers that are locals resolve to their current cell value
	loopA  *Term  // allocation counter at the entry of the loop an invariant belongs to
	err    *string
}

func (c *evalCtx) fail(format string, a ...any) EV {
	msg := fmt.Sprintf(format, a...)
	if c.err != nil && *c.err == "" {
		*c.err = msg
	}
	c.vc.specError(msg)
	return EV{V: scalar(c.vc.P.Fresh("specerr", SBool))}
}

func (vc *VC) specError(msg string) {
	for _, m := range vc.specErrs {
		if m == msg {
			return
		}
	}
	vc.specErrs = append(vc.specErrs, msg)
}

func (c *evalCtx) with(st *State) *evalCtx {
	n := *c
	n.st = st
	return &n
}

func (c *evalCtx) eval(e *Expr) EV {
	p := c.vc.P
	switch e.Kind {
	case "int":
		return EV{V: scalar(p.BigInt(e.Int))}
	case "bool":
		return EV{V: scalar(p.Bool(e.Name == "true"))}
	case "nil":
		return EV{V: scalar(p.Int(0))}
	case "ident":
		return c.evalIdent(e.Name)
	case "old":
		if c.old == nil {
			return c.fail("old() used where no pre-state exists: %s", e)
		}
		n := c.with(c.old)
		n.useLocals = false
		return n.eval(e.Args[0])
	case "field":
		return c.evalField(c.eval(e.Args[0]), e.Name, e)
	case "index":
		return c.evalIndex(c.eval(e.Args[0]), c.eval(e.Args[1]), e)
	case "unary":
		a := c.eval(e.Args[0])
		if e.Name == "!" {
			return EV{V: scalar(p.Not(c.bool(a, e)))}
		}
		return EV{V: scalar(p.Neg(c.int(a, e)))}
	case "cond":
		cond := c.bool(c.eval(e.Args[0]), e)
		a, b := c.eval(e.Args[1]), c.eval(e.Args[2])
		if a.V.K == VScalar && b.V.K == VScalar && a.V.T.S == b.V.T.S {
			t := a.T
			if t == nil {
				t = b.T
			}
			return EV{V: scalar(p.Ite(cond, a.V.T, b.V.T)), T: t}
		}
		return c.fail("conditional with non-scalar arms: %s", e)
	case "quant":
		nb := map[string]*Term{}
		for k, v := range c.bound {
			nb[k] = v
		}
		var vars []*Term
		for _, v := range e.Vars {
			c.vc.qSeq++
			t := p.Var(fmt.Sprintf("%s?%d", v, c.vc.qSeq), SInt)
			nb[v] = t
			vars = append(vars, t)
		}
		n := *c
		n.bound = nb
		c.vc.activeBound = append(c.vc.activeBound, vars...)
		body := n.bool(n.eval(e.Args[0]), e)
		c.vc.activeBound = c.vc.activeBound[:len(c.vc.activeBound)-len(vars)]
		if e.Name == "forall" {
			// universally quantified index variables are re-based (select(A, off+i) becomes select(A, j)) so that
			// the array reads are usable as triggers; existential ones keep the relative index, so that the witness
			// of an existential hypothesis is syntactically a witness of the same existential over an appended or
			// re-allocated slice
			body = p.RebaseQuant(vars, body)
			return EV{V: scalar(p.Forall(vars, body))}
		}
		// both index forms, as a disjunction of two equivalent formulas: whichever polarity the formula ends up in,
		// a witness found in one form serves the same form on the other side
		abs := p.RebaseQuant(vars, body)
		if abs == body {
			return EV{V: scalar(p.Exists(vars, body))}
		}
		return EV{V: scalar(p.ExDual(p.Exists(vars, body), p.Exists(vars, abs)))}
	case "binary":
		return c.evalBinary(e)
	case "call":
		return c.evalCall(e)
	}
	return c.fail("cannot evaluate %s", e)
}

func (c *evalCtx) bool(v EV, e *Expr) *Term {
	if v.V.K == VScalar && v.V.T.S == SBool {
		return v.V.T
	}
	c.fail("expected a boolean in %s", e)
	return c.vc.P.Fresh("specerr", SBool)
}

func (c *evalCtx) int(v EV, e *Expr) *Term {
	if v.V.K == VScalar && v.V.T.S == SInt {
		return v.V.T
	}
	c.fail("expected an integer/reference in %s", e)
	return c.vc.P.Fresh("specerr", SInt)
}

func (c *evalCtx) evalIdent(name string) EV {
	p := c.vc.P
	if t, ok := c.bound[name]; ok {
		return EV{V: scalar(t)}
	}
	// locals by current value (loop invariants, asserts)
	if c.useLocals && c.fr != nil {
		if ev, ok := c.localValue(name); ok {
			return ev
		}
	}
	if ev, ok := c.names[name]; ok {
		if ev.cell != nil && ev.T != nil {
			if _, isStruct := structOf(ev.T); !isStruct {
				return EV{V: c.vc.loadMem(c.st, ev.cell, ev.T), T: ev.T}
			}
		}
		return ev
	}
	if c.fr != nil {
		if ev, ok := c.localValue(name); ok {
			return ev
		}
	}
	// ghost variables
	if s, ok := c.vc.E.DB.Ghosts[name]; ok {
		return EV{V: scalar(c.vc.heapGet(c.st, "ghost$"+name, s))}
	}
	// package-level constants and variables
	if c.pkg != nil {
		if obj := c.pkg.Scope().Lookup(name); obj != nil {
			switch o := obj.(type) {
			case *types.Const:
				if o.Val().Kind().String() == "Int" || true {
					cv := ssa.NewConst(o.Val(), o.Type())
					return EV{V: c.vc.constVal(c.st, cv), T: o.Type()}
				}
			case *types.Var:
				if sp := c.vc.E.Prog.Package(c.pkg); sp != nil {
					if g, ok := sp.Members[name].(*ssa.Global); ok {
						return EV{V: c.vc.loadGlobal(c.st, g), T: o.Type()}
					}
				}
			}
		}
	}
	_ = p
	for _, sp := range c.vc.E.Prog.AllPackages() {
		if sp.Pkg.Name() == name && c.vc.E.inRepo(sp.Pkg) {
			return EV{pkgName: name, V: scalar(c.vc.P.Int(0))}
		}
	}
	return c.fail("unknown identifier %q", name)
}

// localValue finds a local variable of the frame's function by source name (optionally name#k).
func (c *evalCtx) localValue(name string) (EV, bool) {
	base, ord := name, -1
	if i := strings.Index(name, "#"); i >= 0 {
		fmt.Sscanf(name[i+1:], "%d", &ord)
		base = name[:i]
	}
	k := 0
	var found *ssa.Alloc
	n := 0
	for _, b := range c.fr.fn.Blocks {
		for _, ins := range b.Instrs {
			if a, ok := ins.(*ssa.Alloc); ok && a.Comment == base {
				if ord < 0 || k == ord {
					if found == nil {
						found = a
					}
					n++
				}
				k++
			}
		}
	}
	if found == nil {
		return EV{}, false
	}
	if n > 1 && ord < 0 {
		// ambiguous: prefer one that currently has a cell value; if several, demand an ordinal
		var live []*ssa.Alloc
		for _, b := range c.fr.fn.Blocks {
			for _, ins := range b.Instrs {
				if a, ok := ins.(*ssa.Alloc); ok && a.Comment == base {
					if _, ok := c.st.cells[cellKey{a, c.fr.id}]; ok {
						live = append(live, a)
					} else if _, ok := c.fr.vals[a]; ok {
						live = append(live, a)
					}
				}
			}
		}
		if len(live) >= 1 {
			found = live[0]
			if len(live) > 1 {
				c.fail("local %q is ambiguous in %s; write %s#k", base, c.fr.fn.Name(), base)
			}
		}
	}
	t := found.Type().Underlying().(*types.Pointer).Elem()
	if _, isStruct := structOf(t); isStruct {
		if v, ok := c.fr.vals[found]; ok {
			return EV{V: v, T: t}, true
		}
		return EV{}, false
	}
	if v, ok := c.st.cells[cellKey{found, c.fr.id}]; ok {
		return EV{V: v, T: t}, true
	}
	if v, ok := c.fr.vals[found]; ok && v.K == VScalar {
		// heap-allocated scalar local
		return EV{V: c.vc.loadMem(c.st, v.T, t), T: t}, true
	}
	return EV{V: c.vc.zeroVal(c.st, t), T: t}, true
}

func derefStruct(t types.Type) (types.Type, bool) {
	if t == nil {
		return nil, false
	}
	if p, ok := t.Underlying().(*types.Pointer); ok {
		t = p.Elem()
	}
	if _, ok := structOf(t); ok {
		return t, true
	}
	return nil, false
}

func (c *evalCtx) evalField(base EV, name string, e *Expr) EV {
	vc := c.vc
	if base.pkgName != "" {
		var found *ssa.Global
		for _, sp := range vc.E.Prog.AllPackages() {
			if sp.Pkg.Name() == base.pkgName {
				if g, ok := sp.Members[name].(*ssa.Global); ok {
					if found == nil || vc.E.inRepo(sp.Pkg) {
						found = g
					}
				}
			}
		}
		if found == nil {
			return c.fail("no package-level variable %s.%s", base.pkgName, name)
		}
		return EV{V: vc.loadGlobal(c.st, found), T: found.Type().(*types.Pointer).Elem()}
	}
	stT, ok := derefStruct(base.T)
	if !ok {
		return c.fail("field .%s of a non-struct (%v) in %s", name, base.T, e)
	}
	if base.V.K == VStruct {
		// a struct value (e.g. a function result): select the field from the value
		s, _ := structOf(stT)
		for i := 0; i < s.NumFields() && i < len(base.V.Fs); i++ {
			if s.Field(i).Name() == name {
				return EV{V: base.V.Fs[i], T: s.Field(i).Type()}
			}
		}
		return c.fail("no field %s in struct value (%s)", name, e)
	}
	ref := c.int(base, e)
	obj, index, _ := types.LookupFieldOrMethod(stT, true, c.pkgOfType(stT), name)
	fld, isVar := obj.(*types.Var)
	if !isVar || fld == nil {
		return c.fail("no field %s in %s (%s)", name, typeKey(stT), e)
	}
	cur := stT
	for k, i := range index {
		s, _ := structOf(cur)
		ft := s.Field(i).Type()
		last := k == len(index)-1
		if _, isStruct := structOf(ft); isStruct {
			ref = vc.subRef(c.st, ref, cur, i)
			cur = ft
			if last {
				return EV{V: scalar(ref), T: ft}
			}
			continue
		}
		v := vc.loadField(c.st, ref, cur, i)
		if last {
			return EV{V: v, T: ft}
		}
		// embedded pointer
		nt, ok := derefStruct(ft)
		if !ok {
			return c.fail("cannot traverse embedded field in %s", e)
		}
		ref = vc.asInt(v)
		cur = nt
	}
	return c.fail("empty field path in %s", e)
}

func (c *evalCtx) pkgOfType(t types.Type) *types.Package {
	if n, ok := t.(*types.Named); ok && n.Obj().Pkg() != nil {
		return n.Obj().Pkg()
	}
	return c.pkg
}

func (c *evalCtx) evalIndex(base, idx EV, e *Expr) EV {
	vc := c.vc
	p := vc.P
	if base.V.K == VScalar && strings.HasPrefix(string(base.V.T.S), "(Array") && idx.V.K == VSlice {
		return EV{V: scalar(p.Select(base.V.T, vc.bytesContent(c.st, idx.V)))}
	}
	i := c.int(idx, e)
	if base.V.K == VSlice {
		var et types.Type
		if base.T != nil {
			if st, ok := base.T.Underlying().(*types.Slice); ok {
				et = st.Elem()
			}
		}
		if et == nil {
			return c.fail("index of slice with unknown element type in %s", e)
		}
		pos := p.Add(base.V.Off, i)
		if _, ok := structOf(et); ok {
			return EV{V: scalar(vc.elemRef(c.st, base.V.Arr, pos, et)), T: et}
		}
		return EV{V: vc.loadMaps(c.st, elemMapKey(et), []*Term{base.V.Arr, pos}, et), T: et}
	}
	if base.T != nil {
		switch u := base.T.Underlying().(type) {
		case *types.Map:
			m := c.int(base, e)
			if vs, ok := vc.mapValSort(u); ok {
				raw := p.Select(p.Select(vc.heapGet(c.st, mapKey(u)+"#val", vs), m), i)
				if isRefType(u.Elem()) {
					vc.refAxiom(mapKey(u)+"#val", 2)
				}
				return EV{V: scalar(raw), T: u.Elem()}
			}
			return c.fail("map value type unsupported in %s", e)
		case *types.Array:
			return EV{V: scalar(p.App("arrsel", SInt, c.int(base, e), i)), T: u.Elem()}
		}
	}
	// logical arrays (ghost maps)
	if base.V.K == VScalar && strings.HasPrefix(string(base.V.T.S), "(Array") {
		return EV{V: scalar(p.Select(base.V.T, i))}
	}
	return c.fail("cannot index %s", e)
}

func (c *evalCtx) evalBinary(e *Expr) EV {
	p := c.vc.P
	switch e.Name {
	case "&&", "||", "==>", "<==>":
		a := c.bool(c.eval(e.Args[0]), e)
		b := c.bool(c.eval(e.Args[1]), e)
		switch e.Name {
		case "&&":
			return EV{V: scalar(p.And(a, b))}
		case "||":
			return EV{V: scalar(p.Or(a, b))}
		case "==>":
			return EV{V: scalar(p.Implies(a, b))}
		default:
			return EV{V: scalar(p.Eq(a, b))}
		}
	case "==", "!=":
		a, b := c.eval(e.Args[0]), c.eval(e.Args[1])
		var eq *Term
		switch {
		case a.V.K == VSlice || b.V.K == VSlice:
			if e.Args[1].Kind == "nil" {
				eq = p.Eq(a.V.Arr, p.Int(0))
			} else if e.Args[0].Kind == "nil" {
				eq = p.Eq(b.V.Arr, p.Int(0))
			} else if a.V.K == VSlice && b.V.K == VSlice {
				eq = p.And(p.Eq(a.V.Arr, b.V.Arr), p.Eq(a.V.Off, b.V.Off), p.Eq(a.V.Len, b.V.Len), p.Eq(a.V.Cap, b.V.Cap))
			} else {
				return c.fail("comparison of slice with non-slice in %s", e)
			}
		case a.V.K == VScalar && b.V.K == VScalar && a.V.T.S == b.V.T.S:
			eq = p.Eq(a.V.T, b.V.T)
		default:
			return c.fail("cannot compare operands of %s", e)
		}
		if e.Name == "!=" {
			eq = p.Not(eq)
		}
		return EV{V: scalar(eq)}
	}
	a := c.int(c.eval(e.Args[0]), e)
	b := c.int(c.eval(e.Args[1]), e)
	switch e.Name {
	case "<":
		return EV{V: scalar(p.Lt(a, b))}
	case "<=":
		return EV{V: scalar(p.Le(a, b))}
	case ">":
		return EV{V: scalar(p.Gt(a, b))}
	case ">=":
		return EV{V: scalar(p.Ge(a, b))}
	case "+":
		return EV{V: scalar(p.Add(a, b))}
	case "-":
		return EV{V: scalar(p.Sub(a, b))}
	case "*":
		return EV{V: scalar(p.Mul(a, b))}
	case "/":
		return EV{V: scalar(p.Div(a, b))}
	case "%":
		return EV{V: scalar(p.Mod(a, b))}
	}
	return c.fail("unknown operator %s", e.Name)
}

func (c *evalCtx) evalCall(e *Expr) EV {
	vc := c.vc
	p := vc.P
	name := e.Name
	// macros
	if sf, ok := vc.E.DB.Specs[name]; ok {
		if len(sf.Params) != len(e.Args) {
			return c.fail("spec function %s expects %d arguments", name, len(sf.Params))
		}
		// evaluate arguments once, bind as names (call-by-value keeps old() semantics simple)
		n := *c
		n.names = map[string]EV{}
		for k, v := range c.names {
			n.names[k] = v
		}
		n.bound = map[string]*Term{}
		for k, v := range c.bound {
			n.bound[k] = v
		}
		for i, pn := range sf.Params {
			av := c.eval(e.Args[i])
			delete(n.bound, pn)
			n.names[pn] = av
		}
		n.useLocals = false
		n.fr = nil
		return n.eval(sf.Body)
	}
	if uf, ok := vc.E.DB.UFuns[name]; ok {
		if len(uf.Args) != len(e.Args) {
			return c.fail("ufun %s expects %d arguments", name, len(uf.Args))
		}
		var args []*Term
		for i, a := range e.Args {
			av := c.eval(a)
			var t *Term
			if uf.Args[i] == SBool {
				t = c.bool(av, e)
			} else if av.V.K == VSlice && uf.Args[i] == SInt {
				t = vc.bytesContent(c.st, av.V)
			} else {
				t = c.int(av, e)
			}
			args = append(args, t)
		}
		// state-dependent function: the current versions of the heap maps it reads are further arguments
		for _, k := range uf.Reads {
			srt, known := vc.heapSort[k]
			if !known {
				if gs, ok := vc.guessKeySort(k); ok {
					vc.heapInit(k, &gs)
					srt, known = gs, true
				}
			}
			if !known {
				return c.fail("sfun %s reads %s, whose sort is not known", name, k)
			}
			args = append(args, vc.heapGet(c.st, k, srt))
		}
		return EV{V: scalar(p.App("spec$"+name, uf.Ret, args...))}
	}
	arg := func(i int) EV {
		if i >= len(e.Args) {
			c.fail("%s: missing argument %d", name, i)
			return EV{V: scalar(p.Int(0))}
		}
		return c.eval(e.Args[i])
	}
	switch name {
	case "len":
		a := arg(0)
		switch {
		case a.V.K == VSlice:
			return EV{V: scalar(a.V.Len)}
		case a.T != nil && isString(a.T):
			return EV{V: scalar(p.App("strlen", SInt, c.int(a, e)))}
		case a.T != nil:
			switch u := a.T.Underlying().(type) {
			case *types.Array:
				return EV{V: scalar(p.Int(u.Len()))}
			case *types.Map:
				dom := p.Select(vc.heapGet(c.st, mapKey(u)+"#dom", SArrIAB), c.int(a, e))
				return EV{V: scalar(p.App("maplen", SInt, dom))}
			}
		}
		return c.fail("len of unsupported value in %s", e)
	case "cap":
		a := arg(0)
		if a.V.K == VSlice {
			return EV{V: scalar(a.V.Cap)}
		}
		return c.fail("cap of non-slice in %s", e)
	case "u":
		// value of a *uint256.Int
		a := arg(0)
		return EV{V: vc.loadMem(c.st, c.int(a, e), uint256Type(vc.E))}
	case "content":
		a := arg(0)
		if a.V.K == VSlice {
			return EV{V: scalar(vc.bytesContent(c.st, a.V))}
		}
		return EV{V: scalar(c.int(a, e))} // strings and arrays are their own content
	case "inlist":
		// inlist(s, a): a is an element of slice s. An uninterpreted predicate of (backing row, offset, length, a)
		// whose meaning is fixed by: no element in an empty slice; every element is in; whatever is in has an index;
		// and the append lemma emitted at every single-element append.
		sv, av := arg(0), arg(1)
		if sv.V.K != VSlice || sv.T == nil {
			return c.fail("inlist() needs a slice in %s", e)
		}
		st0, ok := sv.T.Underlying().(*types.Slice)
		if !ok || classify(st0.Elem()) != TKInt {
			return c.fail("inlist() needs a slice of scalar elements in %s", e)
		}
		row := p.Select(vc.heapGet(c.st, elemMapKey(st0.Elem()), ArrSort(SInt, ArrSort(SInt, SInt))), sv.V.Arr)
		t := p.App("inlist", SBool, row, sv.V.Off, sv.V.Len, c.int(av, e))
		dk := p.App("inlistdef", SBool, row, sv.V.Off, sv.V.Len)
		if !vc.typed[dk] {
			vc.typed[dk] = true
			vc.qSeq++
			i := p.Var(fmt.Sprintf("mi?%d", vc.qSeq), SInt)
			vc.qSeq++
			a := p.Var(fmt.Sprintf("ma?%d", vc.qSeq), SInt)
			inR := p.And(p.Le(p.Int(0), i), p.Lt(i, sv.V.Len))
			el := p.Select(row, p.Add(sv.V.Off, i))
			// every element is in (absolute index j, so that a read row[j] is the trigger)
			inA := p.And(p.Le(sv.V.Off, i), p.Lt(i, p.Add(sv.V.Off, sv.V.Len)))
			vc.assumeGlobal(p.Forall([]*Term{i}, p.Implies(inA, p.App("inlist", SBool, row, sv.V.Off, sv.V.Len, p.Select(row, i)))))
			vc.assumeGlobal(p.Forall([]*Term{a}, p.Implies(p.App("inlist", SBool, row, sv.V.Off, sv.V.Len, a), p.Exists([]*Term{i}, p.And(inR, p.Eq(el, a))))))
			vc.assumeGlobal(p.Forall([]*Term{a}, p.Implies(p.Le(sv.V.Len, p.Int(0)), p.Not(p.App("inlist", SBool, row, sv.V.Off, sv.V.Len, a)))))
		}
		return EV{V: scalar(t)}
	case "strlen":
		return EV{V: scalar(p.App("strlen", SInt, c.int(arg(0), e)))}
	case "u256bytes":
		// the minimal big-endian byte string of a 256-bit value (what (*uint256.Int).Bytes returns); injective
		return EV{V: scalar(p.App("u256bytes", SInt, c.int(arg(0), e)))}
	case "lexrank":
		// the position of a byte string in the lexicographic order used by bytes.Compare (order embedding;
		// equal ranks iff equal contents is assumed per compared pair by the bytes.Compare intrinsic)
		a := arg(0)
		var ct *Term
		if a.V.K == VSlice {
			ct = vc.bytesContent(c.st, a.V)
		} else {
			ct = c.int(a, e)
		}
		return EV{V: scalar(p.App("lexrank", SInt, ct))}
	case "bytesof":
		// content of k[:] for an array value k
		a := arg(0)
		if a.T != nil {
			if at, ok := a.T.Underlying().(*types.Array); ok {
				return EV{V: scalar(vc.arrayBytes(c.int(a, e), at, a.T))}
			}
		}
		if a.T == nil && a.V.K == VScalar && a.V.T.S == SInt {
			// untyped (quantified) value: a [32]byte ledger key unless a length is given (bytesof(x, 20))
			n := int64(32)
			if len(e.Args) == 2 && e.Args[1].Kind == "int" {
				n = e.Args[1].Int.Int64()
			}
			t := types.NewArray(types.Typ[types.Uint8], n)
			return EV{V: scalar(vc.arrayBytes(a.V.T, t, t))}
		}
		return c.fail("bytesof() needs an array value in %s", e)
	case "addr20", "key32":
		// the [N]byte value whose bytes are the given content (inverse of bytesof on N-byte strings)
		n := int64(20)
		if name == "key32" {
			n = 32
		}
		cont := c.contentOf(arg(0), e)
		at := types.NewArray(types.Typ[types.Uint8], n)
		v := p.App(fmt.Sprintf("arrofbytes$[%d]uint8", n), SInt, cont)
		vc.assumeGlobal(p.Implies(p.Eq(p.App("strlen", SInt, cont), p.Int(n)), p.Eq(vc.arrayBytes(v, at, at), cont)))
		return EV{V: scalar(v)}
	case "has":
		m, k := arg(0), arg(1)
		if m.T != nil {
			if mt, ok := m.T.Underlying().(*types.Map); ok {
				dom := p.Select(p.Select(vc.heapGet(c.st, mapKey(mt)+"#dom", SArrIAB), c.int(m, e)), c.int(k, e))
				return EV{V: scalar(p.And(p.Ne(c.int(m, e), p.Int(0)), dom))}
			}
		}
		return c.fail("has() needs a map in %s", e)
	case "fresh":
		a := arg(0)
		if c.old == nil {
			return c.fail("fresh() needs a pre-state")
		}
		return EV{V: scalar(p.Gt(c.refOf(a, e), vc.allocCounter(c.old)))}
	case "loopfresh":
		// allocated since the entry of the loop whose invariant is being evaluated
		if c.loopA == nil {
			return c.fail("loopfresh() outside a loop invariant")
		}
		return EV{V: scalar(p.Gt(c.refOf(arg(0), e), c.loopA))}
	case "allocated":
		a := arg(0)
		return EV{V: scalar(p.Le(c.refOf(a, e), vc.allocCounter(c.st)))}
	case "dtype":
		return EV{V: scalar(p.App("dtype", SInt, c.int(arg(0), e)))}
	case "istype":
		// istype(x, T) with T a type name of the current package, optionally ptr(T)
		if len(e.Args) != 2 {
			return c.fail("istype(x, T)")
		}
		t, ok := c.resolveType(e.Args[1])
		if !ok {
			return c.fail("unknown type in %s", e)
		}
		x := c.int(arg(0), e)
		r := p.And(p.Ne(x, p.Int(0)), p.Eq(p.App("dtype", SInt, x), p.Int(int64(vc.E.typeTag(t)))))
		if _, isPtr := t.Underlying().(*types.Pointer); isPtr {
			// the interface holds a non-nil pointer of that type
			r = p.And(r, p.Ne(x, p.App("typednil$"+sanitize(typeKey(t)), SInt)))
		}
		return EV{V: scalar(r)}
	case "as":
		// as(x, T): the interface/pointer value x viewed with static type T
		if len(e.Args) != 2 {
			return c.fail("as(x, T)")
		}
		t, ok := c.resolveType(e.Args[1])
		if !ok {
			return c.fail("unknown type in %s", e)
		}
		return EV{V: scalar(c.int(arg(0), e)), T: t}
	case "store":
		a := arg(0)
		if a.V.K != VScalar || !strings.HasPrefix(string(a.V.T.S), "(Array") {
			return c.fail("store() needs a ghost array in %s", e)
		}
		v := arg(2)
		var vt *Term
		if v.V.K == VSlice {
			vt = vc.bytesContent(c.st, v.V)
		} else if v.V.K == VScalar && v.V.T.S == a.V.T.S.elemSort() {
			vt = v.V.T
		} else if a.V.T.S.elemSort() == SBool {
			vt = c.bool(v, e)
		} else {
			vt = c.int(v, e)
		}
		return EV{V: scalar(p.Store(a.V.T, c.contentOf(arg(1), e), vt))}
	case "min", "max":
		a, b := c.int(arg(0), e), c.int(arg(1), e)
		if name == "min" {
			return EV{V: scalar(p.Ite(p.Le(a, b), a, b))}
		}
		return EV{V: scalar(p.Ite(p.Le(a, b), b, a))}
	case "abs":
		a := c.int(arg(0), e)
		return EV{V: scalar(p.Ite(p.Le(p.Int(0), a), a, p.Neg(a)))}
	case "arr":
		// backing array reference of a slice
		a := arg(0)
		if a.V.K == VSlice {
			return EV{V: scalar(a.V.Arr)}
		}
		return c.fail("arr() of non-slice")
	case "off":
		a := arg(0)
		if a.V.K == VSlice {
			return EV{V: scalar(a.V.Off)}
		}
		return c.fail("off() of non-slice")
	case "visited":
		// visited(k): key k was already produced by the (single) map range of this function
		if c.fr == nil {
			return c.fail("visited() outside a function body")
		}
		k := c.int(arg(0), e)
		var key string
		for hk := range c.st.heap {
			if strings.HasPrefix(hk, fmt.Sprintf("$visited.%d.", c.fr.id)) {
				if key != "" && len(e.Args) < 2 {
					return c.fail("visited(): several map ranges; not supported")
				}
				key = hk
			}
		}
		if key == "" {
			return c.fail("visited(): no map range is active")
		}
		return EV{V: scalar(p.Select(vc.heapGet(c.st, key, SArrIB), k))}
	}
	return c.fail("unknown function %s in contract expression", name)
}

func (c *evalCtx) refOf(a EV, e *Expr) *Term {
	if a.V.K == VSlice {
		return a.V.Arr
	}
	return c.int(a, e)
}

func uint256Type(e *Engine) types.Type {
	if e.u256 != nil {
		return e.u256
	}
	for _, p := range e.Prog.AllPackages() {
		if p.Pkg.Path() == "github.com/holiman/uint256" {
			e.u256 = p.Pkg.Scope().Lookup("Int").Type()
			return e.u256
		}
	}
	panic("uint256 not loaded")
}

func (c *evalCtx) resolveType(e *Expr) (types.Type, bool) {
	switch e.Kind {
	case "ident":
		if c.pkg != nil {
			if tn, ok := c.pkg.Scope().Lookup(e.Name).(*types.TypeName); ok {
				return tn.Type(), true
			}
		}
		if t, ok := c.vc.E.resolveTypeName("", e.Name); ok {
			return t, true
		}
	case "call":
		if e.Name == "ptr" && len(e.Args) == 1 {
			if t, ok := c.resolveType(e.Args[0]); ok {
				return types.NewPointer(t), true
			}
		}
	case "field":
		// pkgname.Type
		if e.Args[0].Kind == "ident" {
			var found types.Type
			for _, ip := range c.vc.E.Prog.AllPackages() {
				if ip.Pkg.Name() == e.Args[0].Name {
					if tn, ok := ip.Pkg.Scope().Lookup(e.Name).(*types.TypeName); ok {
						if c.vc.E.inRepo(ip.Pkg) {
							return tn.Type(), true
						}
						if found == nil {
							found = tn.Type()
						}
					}
				}
			}
			if found != nil {
				return found, true
			}
		}
	}
	return nil, false
}

// evalClause evaluates a boolean clause in the context of a frame (locals visible, parameters = entry values).
func (vc *VC) evalClause(fr *frame, st *State, cl *Clause, extra map[string]EV) *Term {
	c := vc.frameCtx(fr, st)
	c.loopA = vc.curLoopA
	for k, v := range extra {
		c.names[k] = v
	}
	c.useLocals = cl.Kind == "invariant" || cl.Kind == "assert" || cl.Kind == "decreases" || cl.Kind == "loopassume"
	return c.bool(c.eval(cl.Expr), cl.Expr)
}

func (vc *VC) evalExprInt(fr *frame, st *State, e *Expr) *Term {
	c := vc.frameCtx(fr, st)
	c.useLocals = true
	return c.int(c.eval(e), e)
}

func (vc *VC) frameCtx(fr *frame, st *State) *evalCtx {
	c := &evalCtx{vc: vc, fr: fr, fn: fr.fn, st: st, old: vc.entry, names: map[string]EV{}, bound: map[string]*Term{}, pkg: pkgOf(fr.fn)}
	if fr.entry != nil {
		c.old = fr.entry
	}
	if fr.fn == vc.Fn {
		for k, v := range vc.closureVars {
			c.names[k] = v
		}
	}
	// parameters by name with their static types
	for i, p := range fr.fn.Params {
		if v, ok := fr.vals[p]; ok {
			c.names[p.Name()] = EV{V: v, T: p.Type()}
		}
		_ = i
	}
	if fr.contract != nil {
		names := []string{}
		if fr.fn.Signature.Recv() != nil {
			names = append(names, fr.contract.RecvName)
		}
		names = append(names, fr.contract.ParamNames...)
		for i, p := range fr.fn.Params {
			if i < len(names) && names[i] != "" && names[i] != "_" {
				if v, ok := fr.vals[p]; ok {
					c.names[names[i]] = EV{V: v, T: p.Type()}
				}
			}
		}
	}
	return c
}

func (c *evalCtx) contentOf(a EV, e *Expr) *Term {
	if a.V.K == VSlice {
		return c.vc.bytesContent(c.st, a.V)
	}
	return c.int(a, e)
}
