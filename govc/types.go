package govc

import (
	"fmt"
	"go/types"
	"strings"
)

// TK classifies how a Go type is represented symbolically.
type TK int

const (
	TKInt    TK = iota // one Int-sorted term (integers, strings, refs, arrays, interfaces, maps, funcs)
	TKBool             // one Bool-sorted term
	TKSlice            // (arr, off, len, cap)
	TKStruct           // fields by value
	TKTuple            // several results
)

var opaqueStructs = map[string]bool{
	"time.Time": true, "sync.Mutex": true, "sync.RWMutex": true, "sync.Once": true, "sync.WaitGroup": true,
	"math/big.Int": true, "sync/atomic.Value": true, "sync/atomic.Int64": true, "sync/atomic.Int32": true,
	"sync/atomic.Uint64": true, "sync/atomic.Uint32": true, "sync/atomic.Bool": true, "reflect.Value": true,
	"time.Location": true, "strings.Builder": true, "bytes.Buffer": true,
}

func namedKey(n *types.Named) string {
	o := n.Origin().Obj()
	if o.Pkg() == nil {
		return o.Name()
	}
	return o.Pkg().Path() + "." + o.Name()
}

func isOpaqueNamed(t types.Type) bool {
	if n, ok := t.(*types.Named); ok {
		return opaqueStructs[namedKey(n)]
	}
	return false
}

func classify(t types.Type) TK {
	if isOpaqueNamed(t) {
		return TKInt
	}
	switch u := t.Underlying().(type) {
	case *types.Basic:
		if u.Info()&types.IsBoolean != 0 {
			return TKBool
		}
		return TKInt
	case *types.Slice:
		return TKSlice
	case *types.Struct:
		return TKStruct
	case *types.Tuple:
		return TKTuple
	}
	if _, ok := t.(*types.Tuple); ok {
		return TKTuple
	}
	return TKInt
}

// typeKey is a short stable name for a type, used in heap map names.
func typeKey(t types.Type) string {
	switch u := t.(type) {
	case *types.Named:
		o := u.Origin().Obj()
		if o.Pkg() == nil {
			return o.Name()
		}
		return o.Pkg().Name() + "." + o.Name()
	case *types.Alias:
		return typeKey(types.Unalias(u))
	case *types.Basic:
		switch u.Kind() {
		case types.Uint8:
			return "uint8"
		case types.Int32:
			return "int32"
		}
		return u.Name()
	case *types.Pointer:
		return "*" + typeKey(u.Elem())
	case *types.Slice:
		return "[]" + typeKey(u.Elem())
	case *types.Array:
		return fmt.Sprintf("[%d]%s", u.Len(), typeKey(u.Elem()))
	case *types.Map:
		return "map[" + typeKey(u.Key()) + "]" + typeKey(u.Elem())
	case *types.TypeParam:
		return "T$" + u.Obj().Name()
	case *types.Interface:
		if u.NumMethods() == 0 {
			return "any"
		}
		return "iface{" + fmt.Sprint(u.NumMethods()) + "}"
	case *types.Struct:
		var sb strings.Builder
		sb.WriteString("struct{")
		for i := 0; i < u.NumFields(); i++ {
			sb.WriteString(u.Field(i).Name() + ";")
		}
		sb.WriteString("}")
		return sb.String()
	case *types.Signature:
		return "func"
	case *types.Chan:
		return "chan " + typeKey(u.Elem())
	case *types.Tuple:
		return "tuple"
	}
	return t.String()
}

// elemMapKey names the element map of slices/arrays with element type t.
// Pointer-like element types of the same representation share nothing: the key is the full type key.
func elemMapKey(t types.Type) string { return "E$" + typeKey(t) }
func memMapKey(t types.Type) string  { return "M$" + typeKey(t) }

func structOf(t types.Type) (*types.Struct, bool) {
	if isOpaqueNamed(t) {
		return nil, false
	}
	s, ok := t.Underlying().(*types.Struct)
	return s, ok
}

// fieldMapKey names the heap map of field idx of struct type t (named or literal struct).
func fieldMapKey(t types.Type, idx int) string {
	s, _ := structOf(t)
	return "F$" + typeKey(t) + "." + s.Field(idx).Name()
}

func isPointerToStruct(t types.Type) (types.Type, bool) {
	p, ok := t.Underlying().(*types.Pointer)
	if !ok {
		return nil, false
	}
	if _, ok := structOf(p.Elem()); ok {
		return p.Elem(), true
	}
	return nil, false
}

// intRange returns the inclusive range of a machine integer type, ok=false for non-integers.
func intRange(t types.Type) (lo, hi string, ok bool) {
	b, isB := t.Underlying().(*types.Basic)
	if !isB {
		return "", "", false
	}
	switch b.Kind() {
	case types.Int8:
		return "-128", "127", true
	case types.Int16:
		return "-32768", "32767", true
	case types.Int32:
		return "-2147483648", "2147483647", true
	case types.Int64, types.Int:
		return "-9223372036854775808", "9223372036854775807", true
	case types.Uint8:
		return "0", "255", true
	case types.Uint16:
		return "0", "65535", true
	case types.Uint32:
		return "0", "4294967295", true
	case types.Uint64, types.Uint, types.Uintptr:
		return "0", "18446744073709551615", true
	}
	return "", "", false
}

func isUint256(t types.Type) bool {
	n, ok := t.(*types.Named)
	return ok && namedKey(n) == "github.com/holiman/uint256.Int"
}

func isString(t types.Type) bool {
	b, ok := t.Underlying().(*types.Basic)
	return ok && b.Info()&types.IsString != 0
}

func isByteSlice(t types.Type) bool {
	s, ok := t.Underlying().(*types.Slice)
	if !ok {
		return false
	}
	b, ok := s.Elem().Underlying().(*types.Basic)
	return ok && b.Kind() == types.Uint8
}

func isInterface(t types.Type) bool {
	if _, ok := t.(*types.TypeParam); ok {
		return true
	}
	_, ok := t.Underlying().(*types.Interface)
	return ok
}
