package govc

import (
	"fmt"
	"go/token"
	"go/types"
	"math/big"

	"golang.org/x/tools/go/ssa"
)

// intrinsic is a dependency function whose semantics are built into the engine (trusted; listed in evidence).
type intrinsic struct {
	exec func(vc *VC, fr *frame, st *State, c *ssa.CallCommon, args []Val, rt types.Type, pos token.Pos) Val
	mods func(vc *VC, c *ssa.CallCommon, ms *modSet)
	doc  string
}

func noMods(vc *VC, c *ssa.CallCommon, ms *modSet) {}

func u256Mods(vc *VC, c *ssa.CallCommon, ms *modSet) { ms.heap["M$uint256.Int"] = true }

const u256Key = "M$uint256.Int"

func (vc *VC) u256Get(st *State, ref *Term) *Term {
	return vc.loadMem(st, ref, uint256Type(vc.E)).T
}

func (vc *VC) u256Set(st *State, ref, v *Term) {
	m := vc.heapGet(st, u256Key, SArrII)
	vc.heapSet(st, u256Key, vc.P.Store(m, ref, v))
	vc.written[u256Key] = true
}

func (vc *VC) nonNil(st *State, fr *frame, t *Term, what string, pos token.Pos) {
	vc.check(st, "nil", fr.prefix+what, "nil *uint256.Int in "+what, vc.P.Ne(t, vc.P.Int(0)), pos)
}

var intrinsicTab map[string]*intrinsic

func (e *Engine) intrinsic(key string) *intrinsic {
	if intrinsicTab == nil {
		initIntrinsics()
	}
	return intrinsicTab[key]
}

func initIntrinsics() {
	t := map[string]*intrinsic{}
	nop := &intrinsic{exec: func(vc *VC, fr *frame, st *State, c *ssa.CallCommon, args []Val, rt types.Type, pos token.Pos) Val {
		return vc.zeroValOrTuple(st, rt)
	}, mods: noMods, doc: "no-op (sequential semantics)"}
	for _, k := range []string{"sync.(*Mutex).Lock", "sync.(*Mutex).Unlock", "sync.(*RWMutex).Lock", "sync.(*RWMutex).Unlock", "sync.(*RWMutex).RLock", "sync.(*RWMutex).RUnlock"} {
		t[k] = nop
	}
	u := "github.com/holiman/uint256."
	bin := func(op string) *intrinsic {
		return &intrinsic{mods: u256Mods, doc: "z.Op(x,y): exact 256-bit wrapping arithmetic", exec: func(vc *VC, fr *frame, st *State, c *ssa.CallCommon, args []Val, rt types.Type, pos token.Pos) Val {
			p := vc.P
			z, x, y := vc.asInt(args[0]), vc.asInt(args[1]), vc.asInt(args[2])
			vc.nonNil(st, fr, z, op+".z", pos)
			vc.nonNil(st, fr, x, op+".x", pos)
			vc.nonNil(st, fr, y, op+".y", pos)
			xv, yv := vc.u256Get(st, x), vc.u256Get(st, y)
			m := p.BigInt(two256)
			var r *Term
			switch op {
			case "Add":
				s := p.Add(xv, yv)
				r = p.Ite(p.Lt(s, m), s, p.Sub(s, m))
			case "Sub":
				s := p.Sub(xv, yv)
				r = p.Ite(p.Le(p.Int(0), s), s, p.Add(s, m))
			case "Mul":
				r = p.Mod(vc.mulTerm(xv, yv), m)
			case "Div":
				r = p.Ite(p.Eq(yv, p.Int(0)), p.Int(0), p.Div(xv, yv))
			case "Mod":
				r = p.Ite(p.Eq(yv, p.Int(0)), p.Int(0), p.Mod(xv, yv))
			}
			vc.u256Set(st, z, r)
			return scalar(z)
		}}
	}
	for _, op := range []string{"Add", "Sub", "Mul", "Div", "Mod"} {
		t[u+"(*Int)."+op] = bin(op)
	}
	t[u+"(*Int).DivMod"] = &intrinsic{mods: u256Mods, doc: "z.DivMod(x,y,m): z = x/y, m = x%y (both 0 when y == 0); returns (z, m)", exec: func(vc *VC, fr *frame, st *State, c *ssa.CallCommon, args []Val, rt types.Type, pos token.Pos) Val {
		p := vc.P
		z, x, y, m := vc.asInt(args[0]), vc.asInt(args[1]), vc.asInt(args[2]), vc.asInt(args[3])
		vc.nonNil(st, fr, z, "DivMod.z", pos)
		vc.nonNil(st, fr, x, "DivMod.x", pos)
		vc.nonNil(st, fr, y, "DivMod.y", pos)
		vc.nonNil(st, fr, m, "DivMod.m", pos)
		xv, yv := vc.u256Get(st, x), vc.u256Get(st, y)
		q := p.Ite(p.Eq(yv, p.Int(0)), p.Int(0), p.Div(xv, yv))
		r := p.Ite(p.Eq(yv, p.Int(0)), p.Int(0), p.Mod(xv, yv))
		vc.u256Set(st, z, q)
		vc.u256Set(st, m, r)
		return Val{K: VStruct, Fs: []Val{scalar(z), scalar(m)}}
	}}
	t[u+"NewInt"] = &intrinsic{mods: u256Mods, doc: "NewInt(v): fresh Int with value v", exec: func(vc *VC, fr *frame, st *State, c *ssa.CallCommon, args []Val, rt types.Type, pos token.Pos) Val {
		r := vc.newRef(st, "u256")
		vc.u256Set(st, r, vc.asInt(args[0]))
		return scalar(r)
	}}
	t[u+"(*Int).Clone"] = &intrinsic{mods: u256Mods, doc: "Clone: fresh Int with the same value", exec: func(vc *VC, fr *frame, st *State, c *ssa.CallCommon, args []Val, rt types.Type, pos token.Pos) Val {
		z := vc.asInt(args[0])
		vc.nonNil(st, fr, z, "Clone", pos)
		r := vc.newRef(st, "u256")
		vc.u256Set(st, r, vc.u256Get(st, z))
		return scalar(r)
	}}
	t[u+"(*Int).Set"] = &intrinsic{mods: u256Mods, doc: "z.Set(x): *z = *x", exec: func(vc *VC, fr *frame, st *State, c *ssa.CallCommon, args []Val, rt types.Type, pos token.Pos) Val {
		z, x := vc.asInt(args[0]), vc.asInt(args[1])
		vc.nonNil(st, fr, z, "Set.z", pos)
		vc.nonNil(st, fr, x, "Set.x", pos)
		vc.u256Set(st, z, vc.u256Get(st, x))
		return scalar(z)
	}}
	t[u+"(*Int).SetUint64"] = &intrinsic{mods: u256Mods, doc: "z.SetUint64(v)", exec: func(vc *VC, fr *frame, st *State, c *ssa.CallCommon, args []Val, rt types.Type, pos token.Pos) Val {
		z := vc.asInt(args[0])
		vc.nonNil(st, fr, z, "SetUint64", pos)
		vc.u256Set(st, z, vc.asInt(args[1]))
		return scalar(z)
	}}
	t[u+"(*Int).Clear"] = &intrinsic{mods: u256Mods, doc: "z.Clear()", exec: func(vc *VC, fr *frame, st *State, c *ssa.CallCommon, args []Val, rt types.Type, pos token.Pos) Val {
		z := vc.asInt(args[0])
		vc.nonNil(st, fr, z, "Clear", pos)
		vc.u256Set(st, z, vc.P.Int(0))
		return scalar(z)
	}}
	t[u+"(*Int).Sign"] = &intrinsic{mods: noMods, doc: "Sign: -1 iff bit 255 set, 0 iff zero, else 1", exec: func(vc *VC, fr *frame, st *State, c *ssa.CallCommon, args []Val, rt types.Type, pos token.Pos) Val {
		p := vc.P
		z := vc.asInt(args[0])
		vc.nonNil(st, fr, z, "Sign", pos)
		v := vc.u256Get(st, z)
		return scalar(p.Ite(p.Eq(v, p.Int(0)), p.Int(0), p.Ite(p.Lt(v, p.BigInt(two255)), p.Int(1), p.Int(-1))))
	}}
	t[u+"(*Int).IsZero"] = &intrinsic{mods: noMods, doc: "IsZero", exec: func(vc *VC, fr *frame, st *State, c *ssa.CallCommon, args []Val, rt types.Type, pos token.Pos) Val {
		z := vc.asInt(args[0])
		vc.nonNil(st, fr, z, "IsZero", pos)
		return scalar(vc.P.Eq(vc.u256Get(st, z), vc.P.Int(0)))
	}}
	cmp := func(name string) *intrinsic {
		return &intrinsic{mods: noMods, doc: name + ": unsigned comparison", exec: func(vc *VC, fr *frame, st *State, c *ssa.CallCommon, args []Val, rt types.Type, pos token.Pos) Val {
			p := vc.P
			z, x := vc.asInt(args[0]), vc.asInt(args[1])
			vc.nonNil(st, fr, z, name+".z", pos)
			vc.nonNil(st, fr, x, name+".x", pos)
			a, b := vc.u256Get(st, z), vc.u256Get(st, x)
			switch name {
			case "Cmp":
				return scalar(p.Ite(p.Lt(a, b), p.Int(-1), p.Ite(p.Eq(a, b), p.Int(0), p.Int(1))))
			case "Eq":
				return scalar(p.Eq(a, b))
			case "Lt":
				return scalar(p.Lt(a, b))
			case "Gt":
				return scalar(p.Gt(a, b))
			}
			return scalar(p.Fresh("cmp", SBool))
		}}
	}
	for _, n := range []string{"Cmp", "Eq", "Lt", "Gt"} {
		t[u+"(*Int)."+n] = cmp(n)
	}
	t[u+"(*Int).Uint64"] = &intrinsic{mods: noMods, doc: "Uint64: low 64 bits (truncation)", exec: func(vc *VC, fr *frame, st *State, c *ssa.CallCommon, args []Val, rt types.Type, pos token.Pos) Val {
		p := vc.P
		z := vc.asInt(args[0])
		vc.nonNil(st, fr, z, "Uint64", pos)
		return scalar(p.Mod(vc.u256Get(st, z), p.BigInt(new(big.Int).Lsh(big.NewInt(1), 64))))
	}}
	t[u+"(*Int).IsUint64"] = &intrinsic{mods: noMods, doc: "IsUint64", exec: func(vc *VC, fr *frame, st *State, c *ssa.CallCommon, args []Val, rt types.Type, pos token.Pos) Val {
		p := vc.P
		z := vc.asInt(args[0])
		vc.nonNil(st, fr, z, "IsUint64", pos)
		return scalar(p.Lt(vc.u256Get(st, z), p.BigInt(new(big.Int).Lsh(big.NewInt(1), 64))))
	}}
	t[u+"(*Int).Bytes"] = &intrinsic{mods: func(vc *VC, c *ssa.CallCommon, ms *modSet) { ms.heap["E$uint8"] = true; ms.alloc = true }, doc: "Bytes: minimal big-endian encoding, an injective function of the value", exec: func(vc *VC, fr *frame, st *State, c *ssa.CallCommon, args []Val, rt types.Type, pos token.Pos) Val {
		p := vc.P
		z := vc.asInt(args[0])
		vc.nonNil(st, fr, z, "Bytes", pos)
		v := vc.u256Get(st, z)
		content := p.App("u256bytes", SInt, v)
		n := p.App("strlen", SInt, content)
		vc.assumeGlobal(p.And(p.Le(p.Int(0), n), p.Le(n, p.Int(32))))
		vc.assumeGlobal(p.Eq(p.App("u256frombytes", SInt, content), v))
		return vc.bytesOfContent(st, content, n)
	}}
	t[u+"(*Int).SetBytes"] = &intrinsic{mods: u256Mods, doc: "SetBytes: big-endian value of (the last 32 of) the bytes; inverse of Bytes", exec: func(vc *VC, fr *frame, st *State, c *ssa.CallCommon, args []Val, rt types.Type, pos token.Pos) Val {
		p := vc.P
		z := vc.asInt(args[0])
		vc.nonNil(st, fr, z, "SetBytes", pos)
		content := vc.bytesContent(st, args[1])
		v := p.App("u256frombytes", SInt, content)
		vc.assumeGlobal(p.And(p.Le(p.Int(0), v), p.Lt(v, p.BigInt(two256))))
		vc.u256Set(st, z, v)
		return scalar(z)
	}}
	// bytes
	t["bytes.Equal"] = &intrinsic{mods: noMods, doc: "bytes.Equal: equality of contents", exec: func(vc *VC, fr *frame, st *State, c *ssa.CallCommon, args []Val, rt types.Type, pos token.Pos) Val {
		p := vc.P
		a, b := vc.bytesContent(st, args[0]), vc.bytesContent(st, args[1])
		return scalar(p.Or(p.Eq(a, b), p.And(p.Eq(args[0].Len, p.Int(0)), p.Eq(args[1].Len, p.Int(0)))))
	}}
	t["bytes.Compare"] = &intrinsic{mods: noMods, doc: "bytes.Compare: total order on contents, 0 iff equal, antisymmetric", exec: func(vc *VC, fr *frame, st *State, c *ssa.CallCommon, args []Val, rt types.Type, pos token.Pos) Val {
		return scalar(vc.bytesCompare(st, args[0], args[1]))
	}}
	t["sort.Sort"] = &intrinsic{doc: "sort.Sort on a slice-backed sort.Interface: the elements in [0,len) are permuted (set of elements and length preserved); nothing else changes",
		mods: func(vc *VC, c *ssa.CallCommon, ms *modSet) {
			if mi, ok := c.Args[0].(*ssa.MakeInterface); ok {
				if sl, ok := mi.X.Type().Underlying().(*types.Slice); ok {
					heapKeysOfStore(elemMapKey(sl.Elem()), sl.Elem(), ms.heap)
					return
				}
			}
			ms.all = true
		},
		exec: func(vc *VC, fr *frame, st *State, c *ssa.CallCommon, args []Val, rt types.Type, pos token.Pos) Val {
			p := vc.P
			mi, ok := c.Args[0].(*ssa.MakeInterface)
			var sl *types.Slice
			if ok {
				sl, ok = mi.X.Type().Underlying().(*types.Slice)
			}
			if !ok || classify(sl.Elem()) != TKInt {
				vc.note("sort.Sort on an unsupported container: everything havocked")
				vc.havocAllHeap(st, "sort")
				return Val{K: VStruct}
			}
			s := vc.operand(fr, st, mi.X)
			key := elemMapKey(sl.Elem())
			m := vc.heapGet(st, key, SArrIAI)
			oldIn := p.Select(m, s.Arr)
			newIn := p.Fresh("sorted", SArrII)
			vc.qSeq++
			i := p.Var(fmt.Sprintf("i?%d", vc.qSeq), SInt)
			vc.qSeq++
			j := p.Var(fmt.Sprintf("j?%d", vc.qSeq), SInt)
			inR := func(x *Term) *Term { return p.And(p.Le(s.Off, x), p.Lt(x, p.Add(s.Off, s.Len))) }
			// outside the range nothing changes; every new element is an old one and vice versa
			vc.assume(st, p.Forall([]*Term{i}, p.Implies(p.Not(inR(i)), p.Eq(p.Select(newIn, i), p.Select(oldIn, i)))))
			vc.assume(st, p.Forall([]*Term{i}, p.Implies(inR(i), p.Exists([]*Term{j}, p.And(inR(j), p.Eq(p.Select(newIn, i), p.Select(oldIn, j)))))))
			vc.assume(st, p.Forall([]*Term{i}, p.Implies(inR(i), p.Exists([]*Term{j}, p.And(inR(j), p.Eq(p.Select(oldIn, i), p.Select(newIn, j)))))))
			// membership is preserved (same elements)
			vc.qSeq++
			a := p.Var(fmt.Sprintf("m?%d", vc.qSeq), SInt)
			vc.assume(st, p.Forall([]*Term{a}, p.Eq(p.App("inlist", SBool, newIn, s.Off, s.Len, a), p.App("inlist", SBool, oldIn, s.Off, s.Len, a))))
			vc.heapSet(st, key, p.Ite(p.Eq(s.Len, p.Int(0)), m, p.Store(m, s.Arr, newIn)))
			vc.written[key] = true
			return Val{K: VStruct}
		}}
	unm := &intrinsic{doc: "proto.Unmarshal(b, m): never panics; returns an error or overwrites the fields of the message m (a pointer to a struct) with arbitrary values of their types; nothing else changes",
		mods: func(vc *VC, c *ssa.CallCommon, ms *modSet) {
			if mi, ok := c.Args[1].(*ssa.MakeInterface); ok {
				if st, ok := isPointerToStruct(mi.X.Type()); ok {
					heapKeysOfStore("", st, ms.heap)
					ms.allocKeys["E$uint8"] = true
					return
				}
			}
			ms.all = true
		},
		exec: func(vc *VC, fr *frame, st *State, c *ssa.CallCommon, args []Val, rt types.Type, pos token.Pos) Val {
			mi, ok := c.Args[1].(*ssa.MakeInterface)
			var sT types.Type
			if ok {
				sT, ok = isPointerToStruct(mi.X.Type())
			}
			if !ok {
				vc.note("proto.Unmarshal into a message of unknown type: everything havocked")
				vc.havocAllHeap(st, "unmarshal")
				return vc.freshVal(st, rt, "unmarshal.err")
			}
			ref := vc.asInt(vc.operand(fr, st, mi.X))
			a := vc.allocCounter(st)
			na := vc.P.Fresh("$A@unmarshal", SInt)
			vc.assume(st, vc.P.Le(a, na))
			st.heap[allocKey] = na
			vc.storeStruct(st, ref, sT, vc.freshVal(st, sT, "unmarshalled"))
			return vc.freshVal(st, rt, "unmarshal.err")
		}}
	// JSON decoding into a value: the same frame (the fields of the target struct become arbitrary, nothing else
	// changes); additionally the verdict is a function of the text: it decodes (result == nil) iff govjson_ok(text)
	junm := &intrinsic{doc: "json.Unmarshal(bz, v): never panics; overwrites the fields of the struct v points to with arbitrary values of their types; returns nil iff the text decodes (uninterpreted predicate govjson_ok of the text)",
		mods: unm.mods,
		exec: func(vc *VC, fr *frame, st *State, c *ssa.CallCommon, args []Val, rt types.Type, pos token.Pos) Val {
			var res Val
			handled := false
			if mi, ok := c.Args[1].(*ssa.MakeInterface); ok {
				if _, isPS := isPointerToStruct(mi.X.Type()); !isPS {
					// the target is the address of a local variable that is not a struct (typically a pointer
					// variable: Unmarshal(bz, &p)): that variable becomes arbitrary (the decoder may allocate what it
					// points to); nothing else reachable changes
					tv := vc.operand(fr, st, mi.X)
					if tv.K == VScalar && tv.T != nil {
						// a pointer (reference) to a heap cell holding a non-struct value
						if pt0, ok := mi.X.Type().Underlying().(*types.Pointer); ok {
							tv = Val{K: VAddr, A: &Addr{K: AMem, Ref: tv.T, ET: pt0.Elem()}}
						}
					}
					if pt, isPtr := mi.X.Type().Underlying().(*types.Pointer); isPtr && tv.K == VAddr && tv.A != nil && (tv.A.K == ACell || tv.A.K == AMem) {
						t := pt.Elem()
						if _, isStruct := structOf(t); !isStruct {
							a := vc.allocCounter(st)
							na := vc.P.Fresh("$A@jsonunmarshal", SInt)
							vc.assume(st, vc.P.Le(a, na))
							st.heap[allocKey] = na
							vc.store(fr, st, tv, t, vc.freshVal(st, t, "unmarshalled"), pos)
							res = vc.freshVal(st, rt, "unmarshal.err")
							handled = true
						}
					}
				}
			}
			if !handled {
				res = unm.exec(vc, fr, st, c, args, rt, pos)
			}
			if len(args) > 0 && args[0].K == VSlice {
				ok := vc.P.App("spec$govjson_ok", SBool, vc.bytesContent(st, args[0]))
				vc.assume(st, vc.P.Eq(vc.P.Eq(vc.asInt(res), vc.P.Int(0)), ok))
			}
			return res
		}}
	t["github.com/tendermint/tendermint/libs/json.Unmarshal"] = junm
	t["encoding/json.Unmarshal"] = junm
	t["google.golang.org/protobuf/proto.Unmarshal"] = unm
	t["github.com/gogo/protobuf/proto.Unmarshal"] = unm
	t["github.com/golang/protobuf/proto.Unmarshal"] = unm
	intrinsicTab = t
}

// bytesCompare models bytes.Compare through an order embedding val: content -> Int for equal-length inputs
// is not assumed; only: result in {-1,0,1}, 0 iff contents equal, antisymmetry, and transitivity via a rank function.
func (vc *VC) bytesCompare(st *State, a, b Val) *Term {
	p := vc.P
	ca, cb := vc.bytesContent(st, a), vc.bytesContent(st, b)
	// rank: an injective order embedding of byte strings into the integers is impossible in general (dense
	// lexicographic order), but any finite set of strings embeds; the solver only ever sees finitely many.
	ra, rb := p.App("lexrank", SInt, ca), p.App("lexrank", SInt, cb)
	bothEmpty := p.And(p.Eq(a.Len, p.Int(0)), p.Eq(b.Len, p.Int(0)))
	eq := p.Or(p.Eq(ca, cb), bothEmpty)
	vc.assumeGlobal(p.Eq(p.Eq(ra, rb), p.Eq(ca, cb)))
	return p.Ite(eq, p.Int(0), p.Ite(p.Lt(ra, rb), p.Int(-1), p.Int(1)))
}

// mulTerm multiplies; variable*variable products are kept as nonlinear terms.
func (vc *VC) mulTerm(a, b *Term) *Term { return vc.P.Mul(a, b) }
