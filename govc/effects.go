package govc

import (
	"fmt"
	"go/token"
	"go/types"
	"sort"
	"strings"

	"golang.org/x/tools/go/callgraph/cha"
	"golang.org/x/tools/go/ssa"
)

// Effect is one nondeterminism-relevant primitive found in a function body.
type Effect struct {
	ID     string // stable within the function: kind#ordinal[:detail]
	Detail string
	Pos    token.Position
}

// forbidden dependency functions: their result is not a function of (state, request)
var nondetCalls = map[string]bool{
	"time.Now": true, "time.Since": true, "time.Until": true, "time.After": true, "time.Tick": true, "time.NewTimer": true, "time.NewTicker": true, "time.Sleep": false,
	"os.Getenv": true, "os.LookupEnv": true, "os.Environ": true, "os.Hostname": true, "os.Getpid": true, "os.Getppid": true, "os.Getwd": true, "os.Getuid": true,
	"runtime.NumGoroutine": true, "runtime.NumCPU": true, "runtime.GOMAXPROCS": true, "runtime.Stack": true, "runtime.Caller": true, "runtime.Callers": true,
	"os.ReadFile": true, "os.Open": true, "os.ReadDir": true, "os.Stat": true,
}

func nondetCallee(f *ssa.Function) (string, bool) {
	if f == nil || f.Pkg == nil {
		return "", false
	}
	pp := f.Pkg.Pkg.Path()
	name := f.Name()
	if recv := f.Signature.Recv(); recv != nil {
		name = "(" + strings.TrimPrefix(types.TypeString(recv.Type(), func(p *types.Package) string { return "" }), "*") + ")." + name
	}
	full := pp + "." + name
	if nondetCalls[full] {
		return full, true
	}
	if pp == "math/rand" || pp == "crypto/rand" || pp == "math/rand/v2" {
		return full, true
	}
	return "", false
}

// EffectScan walks the call closure of the roots (class-hierarchy analysis over the repository's SSA, closures
// included) and returns, per repository function in the closure, the primitives found in its own body.
// Callees are not merged into callers: every function answers for its own body (modular, like a frame clause).
func (e *Engine) EffectScan(roots []string, rootMethodNames []string, skipPkgs []string) (map[string][]Effect, []string) {
	cg := cha.CallGraph(e.Prog)
	var notes []string
	skip := func(f *ssa.Function) bool {
		p := pkgOf(f)
		if p == nil || !e.inRepo(p) {
			return true
		}
		for _, s := range skipPkgs {
			if strings.Contains(p.Path(), s) {
				return true
			}
		}
		return false
	}
	seen := map[*ssa.Function]bool{}
	var work []*ssa.Function
	push := func(f *ssa.Function) {
		if f == nil || seen[f] {
			return
		}
		if o := f.Origin(); o != nil && len(f.Blocks) == 0 {
			f = o
		}
		if seen[f] || skip(f) {
			return
		}
		seen[f] = true
		work = append(work, f)
	}
	for _, r := range roots {
		f := e.funcs[e.fullKey(r)]
		if f == nil {
			notes = append(notes, "root not found: "+r)
			continue
		}
		push(f)
	}
	// methods reached only through reflection (encoders called by encoding/json, rlp, protobuf)
	if len(rootMethodNames) > 0 {
		want := map[string]bool{}
		for _, n := range rootMethodNames {
			want[n] = true
		}
		for k, f := range e.funcs {
			_ = k
			if f.Signature.Recv() != nil && want[f.Name()] {
				push(f)
			}
		}
	}
	out := map[string][]Effect{}
	for len(work) > 0 {
		f := work[len(work)-1]
		work = work[:len(work)-1]
		key := FuncKey(f)
		var effs []Effect
		cnt := map[string]int{}
		add := func(kind, detail string, pos token.Pos) {
			id := fmt.Sprintf("%s#%d", kind, cnt[kind])
			cnt[kind]++
			effs = append(effs, Effect{ID: id, Detail: detail, Pos: e.Prog.Fset.Position(pos)})
		}
		for _, b := range f.Blocks {
			for _, ins := range b.Instrs {
				switch x := ins.(type) {
				case *ssa.Go:
					add("go", "goroutine started", x.Pos())
				case *ssa.Select:
					add("select", "select statement", x.Pos())
				case *ssa.Range:
					if _, ok := x.X.Type().Underlying().(*types.Map); ok {
						add("maprange", "range over "+typeKey(x.X.Type()), x.Pos())
					}
				case *ssa.Convert:
					if b, ok := x.Type().Underlying().(*types.Basic); ok && b.Kind() == types.Uintptr {
						if _, isPtr := x.X.Type().Underlying().(*types.Basic); isPtr && x.X.Type().Underlying().(*types.Basic).Kind() == types.UnsafePointer {
							add("ptr2int", "pointer converted to integer", x.Pos())
						}
					}
				case *ssa.UnOp:
					if x.Op == token.ARROW {
						add("recv", "channel receive", x.Pos())
					}
				case *ssa.MakeClosure:
					if fn, ok := x.Fn.(*ssa.Function); ok {
						push(fn)
					}
				}
				if ci, ok := ins.(ssa.CallInstruction); ok {
					if callee := ci.Common().StaticCallee(); callee != nil {
						if name, bad := nondetCallee(callee); bad {
							add("nondet", "call of "+name, ins.Pos())
						}
					}
				}
			}
		}
		for _, a := range f.AnonFuncs {
			push(a)
		}
		if n := cg.Nodes[f]; n != nil {
			for _, ed := range n.Out {
				push(ed.Callee.Func)
			}
		}
		sort.Slice(effs, func(i, j int) bool { return effs[i].ID < effs[j].ID })
		// instantiation wrappers of a generic function share its key: keep the richest body's answer
		if prev, ok := out[key]; !ok || len(effs) > len(prev) {
			out[key] = effs
		}
	}
	return out, notes
}

func (e *Engine) fullKey(short string) string {
	if strings.HasPrefix(short, e.RepoMod) {
		return short
	}
	return e.RepoMod + "/" + short
}
