// Package govc is a verification-condition generator for Go (go/ssa, naive
// form) with contracts kept in comment-only files, discharging its
// obligations with SMT solvers. See /verif/DESIGN.md §2.
package govc

import (
	"fmt"
	"math/big"
	"sort"
	"strings"
	"sync"
)

// Sort is an SMT sort, kept as its SMT-LIB spelling.
type Sort string

const (
	SInt  Sort = "Int"
	SBool Sort = "Bool"
)

func ArrSort(idx, val Sort) Sort { return Sort("(Array " + string(idx) + " " + string(val) + ")") }

var (
	SArrII  = ArrSort(SInt, SInt)
	SArrIB  = ArrSort(SInt, SBool)
	SArrIAI = ArrSort(SInt, SArrII)
	SArrIAB = ArrSort(SInt, SArrIB)
)

// elemSort returns the value sort of an array sort.
func (s Sort) elemSort() Sort {
	str := string(s)
	if !strings.HasPrefix(str, "(Array ") {
		panic("elemSort of non-array " + str)
	}
	// "(Array Int X)" -> X ; index sort is always Int here
	rest := strings.TrimPrefix(str, "(Array Int ")
	return Sort(rest[:len(rest)-1])
}

// Term is a hash-consed SMT term.
type Term struct {
	Op   string // "var","int","true","false","uf", or an SMT operator
	Name string // var / uf name; int literal text
	Args []*Term
	S    Sort
	id   int
}

type TermPool struct {
	mu    sync.Mutex
	tab   map[string]*Term
	n     int
	fresh map[string]int
	// uninterpreted function signatures
	UF map[string]ufSig
	// axioms (global hypotheses, asserted in every query that mentions their trigger symbol)
}

type ufSig struct {
	Args []Sort
	Ret  Sort
}

func NewPool() *TermPool {
	return &TermPool{tab: map[string]*Term{}, fresh: map[string]int{}, UF: map[string]ufSig{}}
}

func (p *TermPool) mk(op, name string, s Sort, args ...*Term) *Term {
	var sb strings.Builder
	sb.WriteString(op)
	sb.WriteByte('|')
	sb.WriteString(name)
	sb.WriteByte('|')
	sb.WriteString(string(s))
	for _, a := range args {
		fmt.Fprintf(&sb, "|%d", a.id)
	}
	k := sb.String()
	p.mu.Lock()
	defer p.mu.Unlock()
	if t, ok := p.tab[k]; ok {
		return t
	}
	p.n++
	t := &Term{Op: op, Name: name, Args: args, S: s, id: p.n}
	p.tab[k] = t
	return t
}

func (p *TermPool) Var(name string, s Sort) *Term { return p.mk("var", name, s) }

// Fresh returns a new variable with a unique name derived from base.
func (p *TermPool) Fresh(base string, s Sort) *Term {
	base = sanitize(base)
	p.mu.Lock()
	p.fresh[base]++
	n := p.fresh[base]
	p.mu.Unlock()
	return p.Var(fmt.Sprintf("%s!%d", base, n), s)
}

func sanitize(s string) string {
	var sb strings.Builder
	for _, r := range s {
		switch {
		case r >= 'a' && r <= 'z', r >= 'A' && r <= 'Z', r >= '0' && r <= '9', r == '_', r == '.', r == '$', r == '#', r == '!':
			sb.WriteRune(r)
		default:
			sb.WriteByte('_')
		}
	}
	return sb.String()
}

func (p *TermPool) Int(v int64) *Term { return p.BigInt(big.NewInt(v)) }
func (p *TermPool) BigInt(v *big.Int) *Term {
	return p.mk("int", v.String(), SInt)
}
func (p *TermPool) True() *Term  { return p.mk("true", "", SBool) }
func (p *TermPool) False() *Term { return p.mk("false", "", SBool) }
func (p *TermPool) Bool(b bool) *Term {
	if b {
		return p.True()
	}
	return p.False()
}

func (t *Term) IsTrue() bool  { return t.Op == "true" }
func (t *Term) IsFalse() bool { return t.Op == "false" }
func (t *Term) IntVal() (*big.Int, bool) {
	if t.Op != "int" {
		return nil, false
	}
	v, ok := new(big.Int).SetString(t.Name, 10)
	return v, ok
}

func (p *TermPool) Not(a *Term) *Term {
	if a.IsTrue() {
		return p.False()
	}
	if a.IsFalse() {
		return p.True()
	}
	if a.Op == "not" {
		return a.Args[0]
	}
	return p.mk("not", "", SBool, a)
}

func (p *TermPool) And(as ...*Term) *Term {
	var out []*Term
	seen := map[int]bool{}
	for _, a := range as {
		if a.IsTrue() {
			continue
		}
		if a.IsFalse() {
			return a
		}
		if a.Op == "and" {
			for _, b := range a.Args {
				if !seen[b.id] {
					seen[b.id] = true
					out = append(out, b)
				}
			}
			continue
		}
		if !seen[a.id] {
			seen[a.id] = true
			out = append(out, a)
		}
	}
	for _, a := range out {
		if a.Op == "not" && seen[a.Args[0].id] {
			return p.False()
		}
	}
	if len(out) == 0 {
		return p.True()
	}
	if len(out) == 1 {
		return out[0]
	}
	return p.mk("and", "", SBool, out...)
}

func (p *TermPool) Or(as ...*Term) *Term {
	var out []*Term
	seen := map[int]bool{}
	for _, a := range as {
		if a.IsFalse() {
			continue
		}
		if a.IsTrue() {
			return a
		}
		if a.Op == "or" {
			for _, b := range a.Args {
				if !seen[b.id] {
					seen[b.id] = true
					out = append(out, b)
				}
			}
			continue
		}
		if !seen[a.id] {
			seen[a.id] = true
			out = append(out, a)
		}
	}
	for _, a := range out {
		if a.Op == "not" && seen[a.Args[0].id] {
			return p.True()
		}
	}
	if len(out) == 0 {
		return p.False()
	}
	if len(out) == 1 {
		return out[0]
	}
	return p.mk("or", "", SBool, out...)
}

func (p *TermPool) Implies(a, b *Term) *Term {
	if a.IsTrue() {
		return b
	}
	if a.IsFalse() || b.IsTrue() {
		return p.True()
	}
	if b.IsFalse() {
		return p.Not(a)
	}
	return p.mk("=>", "", SBool, a, b)
}

func (p *TermPool) Iff(a, b *Term) *Term { return p.Eq(a, b) }

func (p *TermPool) Eq(a, b *Term) *Term {
	if a == b {
		return p.True()
	}
	if a.S != b.S {
		panic(fmt.Sprintf("Eq sort mismatch %s vs %s: %s / %s", a.S, b.S, a.String(), b.String()))
	}
	if av, ok := a.IntVal(); ok {
		if bv, ok := b.IntVal(); ok {
			return p.Bool(av.Cmp(bv) == 0)
		}
	}
	if a.S == SBool {
		if a.IsTrue() {
			return b
		}
		if b.IsTrue() {
			return a
		}
		if a.IsFalse() {
			return p.Not(b)
		}
		if b.IsFalse() {
			return p.Not(a)
		}
	}
	if a.id > b.id {
		a, b = b, a
	}
	return p.mk("=", "", SBool, a, b)
}

func (p *TermPool) Ne(a, b *Term) *Term { return p.Not(p.Eq(a, b)) }

func (p *TermPool) Ite(c, a, b *Term) *Term {
	if c.IsTrue() {
		return a
	}
	if c.IsFalse() {
		return b
	}
	if a == b {
		return a
	}
	if a.S != b.S {
		panic(fmt.Sprintf("Ite sort mismatch %s vs %s", a.S, b.S))
	}
	if a.S == SBool {
		if a.IsTrue() && b.IsFalse() {
			return c
		}
		if a.IsFalse() && b.IsTrue() {
			return p.Not(c)
		}
		if a.IsTrue() {
			return p.Or(c, b)
		}
		if b.IsFalse() {
			return p.And(c, a)
		}
		if a.IsFalse() {
			return p.And(p.Not(c), b)
		}
		if b.IsTrue() {
			return p.Or(p.Not(c), a)
		}
	}
	return p.mk("ite", "", a.S, c, a, b)
}

func (p *TermPool) arith(op string, a, b *Term) *Term {
	av, aok := a.IntVal()
	bv, bok := b.IntVal()
	if aok && bok {
		r := new(big.Int)
		switch op {
		case "+":
			return p.BigInt(r.Add(av, bv))
		case "-":
			return p.BigInt(r.Sub(av, bv))
		case "*":
			return p.BigInt(r.Mul(av, bv))
		}
	}
	switch op {
	case "+":
		if aok && av.Sign() == 0 {
			return b
		}
		if bok && bv.Sign() == 0 {
			return a
		}
		// a + (x - a) == x
		if b.Op == "-" && b.Args[1] == a {
			return b.Args[0]
		}
		if a.Op == "-" && a.Args[1] == b {
			return a.Args[0]
		}
	case "-":
		if bok && bv.Sign() == 0 {
			return a
		}
		if a == b {
			return p.Int(0)
		}
	case "*":
		if aok && av.Sign() == 0 || bok && bv.Sign() == 0 {
			return p.Int(0)
		}
		if aok && av.Cmp(big.NewInt(1)) == 0 {
			return b
		}
		if bok && bv.Cmp(big.NewInt(1)) == 0 {
			return a
		}
	}
	return p.mk(op, "", SInt, a, b)
}

func (p *TermPool) Add(a, b *Term) *Term { return p.arith("+", a, b) }
func (p *TermPool) Sub(a, b *Term) *Term { return p.arith("-", a, b) }
func (p *TermPool) Mul(a, b *Term) *Term { return p.arith("*", a, b) }
func (p *TermPool) Neg(a *Term) *Term    { return p.Sub(p.Int(0), a) }

// Div and Mod are SMT-LIB euclidean div/mod (divisor assumed non-zero by the caller).
func (p *TermPool) Div(a, b *Term) *Term {
	if av, ok := a.IntVal(); ok {
		if bv, ok := b.IntVal(); ok && bv.Sign() != 0 {
			q, m := new(big.Int).DivMod(av, bv, new(big.Int)) // euclidean
			_ = m
			return p.BigInt(q)
		}
	}
	return p.mk("div", "", SInt, a, b)
}
func (p *TermPool) Mod(a, b *Term) *Term {
	if av, ok := a.IntVal(); ok {
		if bv, ok := b.IntVal(); ok && bv.Sign() != 0 {
			_, m := new(big.Int).DivMod(av, bv, new(big.Int))
			return p.BigInt(m)
		}
	}
	return p.mk("mod", "", SInt, a, b)
}

func (p *TermPool) cmp(op string, a, b *Term) *Term {
	if av, ok := a.IntVal(); ok {
		if bv, ok := b.IntVal(); ok {
			c := av.Cmp(bv)
			switch op {
			case "<":
				return p.Bool(c < 0)
			case "<=":
				return p.Bool(c <= 0)
			}
		}
	}
	if a == b {
		return p.Bool(op == "<=")
	}
	return p.mk(op, "", SBool, a, b)
}
func (p *TermPool) Lt(a, b *Term) *Term { return p.cmp("<", a, b) }
func (p *TermPool) Le(a, b *Term) *Term { return p.cmp("<=", a, b) }
func (p *TermPool) Gt(a, b *Term) *Term { return p.cmp("<", b, a) }
func (p *TermPool) Ge(a, b *Term) *Term { return p.cmp("<=", b, a) }

func (p *TermPool) Select(arr, idx *Term) *Term {
	// read-over-write simplification with syntactic equality / distinct literals
	for cur := arr; ; {
		if cur.Op == "store" {
			if cur.Args[1] == idx {
				return cur.Args[2]
			}
			if definitelyDistinct(cur.Args[1], idx) {
				cur = cur.Args[0]
				continue
			}
		}
		if cur.Op == "constarr" {
			return cur.Args[0]
		}
		if cur != arr {
			return p.mk("select", "", cur.S.elemSort(), cur, idx)
		}
		break
	}
	return p.mk("select", "", arr.S.elemSort(), arr, idx)
}

func definitelyDistinct(a, b *Term) bool {
	av, aok := a.IntVal()
	bv, bok := b.IntVal()
	if aok && bok {
		return av.Cmp(bv) != 0
	}
	// x+c1 vs x+c2
	return false
}

func (p *TermPool) Store(arr, idx, v *Term) *Term {
	if arr.S.elemSort() != v.S {
		panic(fmt.Sprintf("Store sort mismatch: %s <- %s", arr.S, v.S))
	}
	if arr.Op == "store" && arr.Args[1] == idx {
		arr = arr.Args[0]
	}
	return p.mk("store", "", arr.S, arr, idx, v)
}

func (p *TermPool) ConstArr(s Sort, v *Term) *Term { return p.mk("constarr", "", s, v) }

// App applies an uninterpreted function (declared on first use).
func (p *TermPool) App(name string, ret Sort, args ...*Term) *Term {
	name = sanitize(name)
	sig := ufSig{Ret: ret}
	for _, a := range args {
		sig.Args = append(sig.Args, a.S)
	}
	p.mu.Lock()
	old, ok := p.UF[name]
	if !ok {
		p.UF[name] = sig
	}
	p.mu.Unlock()
	if ok {
		if old.Ret != ret || len(old.Args) != len(sig.Args) {
			panic("UF redeclared with different signature: " + name)
		}
		for i := range old.Args {
			if old.Args[i] != sig.Args[i] {
				panic(fmt.Sprintf("UF %s arg %d sort mismatch: %s vs %s", name, i, old.Args[i], sig.Args[i]))
			}
		}
	}
	return p.mk("uf", name, ret, args...)
}

// Quant builds a quantified formula. vars are Var terms.
func (p *TermPool) Quant(kind string, vars []*Term, body *Term, pats ...*Term) *Term {
	if len(vars) == 0 {
		return body
	}
	if body.IsTrue() || body.IsFalse() {
		return body
	}
	args := append([]*Term{}, vars...)
	args = append(args, body)
	t := p.mk(kind, fmt.Sprintf("%d", len(vars)), SBool, args...)
	return t
}

func (p *TermPool) Forall(vars []*Term, body *Term) *Term { return p.Quant("forall", vars, body) }
func (p *TermPool) Exists(vars []*Term, body *Term) *Term { return p.Quant("exists", vars, body) }

// ---------------------------------------------------------------- substitution

// Subst replaces variables (by term identity) in t.
func (p *TermPool) Subst(t *Term, m map[*Term]*Term) *Term {
	memo := map[*Term]*Term{}
	var rec func(*Term) *Term
	rec = func(t *Term) *Term {
		if r, ok := m[t]; ok {
			return r
		}
		if len(t.Args) == 0 {
			return t
		}
		if r, ok := memo[t]; ok {
			return r
		}
		args := make([]*Term, len(t.Args))
		ch := false
		for i, a := range t.Args {
			args[i] = rec(a)
			if args[i] != a {
				ch = true
			}
		}
		r := t
		if ch {
			r = p.rebuild(t, args)
		}
		memo[t] = r
		return r
	}
	return rec(t)
}

func (p *TermPool) rebuild(t *Term, args []*Term) *Term {
	switch t.Op {
	case "not":
		return p.Not(args[0])
	case "and":
		return p.And(args...)
	case "or":
		return p.Or(args...)
	case "=>":
		return p.Implies(args[0], args[1])
	case "=":
		return p.Eq(args[0], args[1])
	case "ite":
		return p.Ite(args[0], args[1], args[2])
	case "+", "-", "*":
		return p.arith(t.Op, args[0], args[1])
	case "div":
		return p.Div(args[0], args[1])
	case "mod":
		return p.Mod(args[0], args[1])
	case "<", "<=":
		return p.cmp(t.Op, args[0], args[1])
	case "select":
		return p.Select(args[0], args[1])
	case "store":
		return p.Store(args[0], args[1], args[2])
	}
	return p.mk(t.Op, t.Name, t.S, args...)
}

// ---------------------------------------------------------------- printing

// String renders the term as a tree (shared sub-terms are repeated), cut off after a few thousand characters:
// it is for messages only, and a DAG can be exponentially larger as a tree.
func (t *Term) String() string {
	var sb strings.Builder
	t.writeBounded(&sb, 4000)
	return sb.String()
}

func (t *Term) writeBounded(sb *strings.Builder, limit int) {
	if sb.Len() > limit {
		return
	}
	switch t.Op {
	case "var", "int", "true", "false", "constarr", "forall", "exists":
		if t.Op == "forall" || t.Op == "exists" {
			n := len(t.Args) - 1
			sb.WriteString("(" + t.Op + " (")
			for i := 0; i < n; i++ {
				v := t.Args[i]
				sb.WriteString("(" + quoteName(v.Name) + " " + string(v.S) + ")")
			}
			sb.WriteString(") ")
			t.Args[n].writeBounded(sb, limit)
			sb.WriteByte(')')
			return
		}
		t.write(sb, nil)
	case "uf":
		if len(t.Args) == 0 {
			sb.WriteString(quoteName(t.Name))
			return
		}
		sb.WriteString("(" + quoteName(t.Name))
		for _, a := range t.Args {
			sb.WriteByte(' ')
			a.writeBounded(sb, limit)
			if sb.Len() > limit {
				sb.WriteString(" ...")
				break
			}
		}
		sb.WriteByte(')')
	default:
		op := t.Op
		if op == "exdual" {
			op = "or"
		}
		sb.WriteString("(" + op)
		for _, a := range t.Args {
			sb.WriteByte(' ')
			a.writeBounded(sb, limit)
			if sb.Len() > limit {
				sb.WriteString(" ...")
				break
			}
		}
		sb.WriteByte(')')
	}
}

func smtInt(s string) string {
	if strings.HasPrefix(s, "-") {
		return "(- " + s[1:] + ")"
	}
	return s
}

func quoteName(n string) string {
	return "|" + n + "|"
}

func (t *Term) write(sb *strings.Builder, named map[*Term]string) {
	if named != nil {
		if n, ok := named[t]; ok {
			sb.WriteString(n)
			return
		}
	}
	switch t.Op {
	case "var":
		sb.WriteString(quoteName(t.Name))
	case "int":
		sb.WriteString(smtInt(t.Name))
	case "true", "false":
		sb.WriteString(t.Op)
	case "uf":
		if len(t.Args) == 0 {
			sb.WriteString(quoteName(t.Name))
			return
		}
		sb.WriteString("(" + quoteName(t.Name))
		for _, a := range t.Args {
			sb.WriteByte(' ')
			a.write(sb, named)
		}
		sb.WriteByte(')')
	case "constarr":
		sb.WriteString("((as const " + string(t.S) + ") ")
		t.Args[0].write(sb, named)
		sb.WriteByte(')')
	case "forall", "exists":
		n := len(t.Args) - 1
		sb.WriteString("(" + t.Op + " (")
		for i := 0; i < n; i++ {
			v := t.Args[i]
			sb.WriteString("(" + quoteName(v.Name) + " " + string(v.S) + ")")
		}
		sb.WriteString(") ")
		t.Args[n].write(sb, named)
		sb.WriteByte(')')
	default:
		op := t.Op
		if op == "exdual" {
			op = "or" // an existential in two equivalent index forms whose polarity was not resolved
		}
		sb.WriteString("(" + op)
		for _, a := range t.Args {
			sb.WriteByte(' ')
			a.write(sb, named)
		}
		sb.WriteByte(')')
	}
}

// ExDual is an existential formula given in two logically equivalent forms (relative and re-based array indices).
// Polarize turns it into their disjunction where the formula is to be proved and into their conjunction where it
// is assumed, so that a witness in either form is available on the side that needs it.
func (p *TermPool) ExDual(rel, abs *Term) *Term {
	if rel == abs {
		return rel
	}
	return p.mk("exdual", "", SBool, rel, abs)
}

// Polarize resolves ExDual nodes: pol > 0 means the term is a goal, pol < 0 a hypothesis.
func (p *TermPool) Polarize(t *Term, pol int) *Term {
	memo := map[[2]interface{}]*Term{}
	has := map[*Term]bool{}
	var hasDual func(t *Term) bool
	hasDual = func(t *Term) bool {
		if v, ok := has[t]; ok {
			return v
		}
		r := t.Op == "exdual"
		for _, a := range t.Args {
			if r {
				break
			}
			if hasDual(a) {
				r = true
			}
		}
		has[t] = r
		return r
	}
	var rec func(t *Term, pol int) *Term
	rec = func(t *Term, pol int) *Term {
		if !hasDual(t) {
			return t
		}
		k := [2]interface{}{t, pol}
		if v, ok := memo[k]; ok {
			return v
		}
		var out *Term
		switch t.Op {
		case "exdual":
			a, b := rec(t.Args[0], pol), rec(t.Args[1], pol)
			if pol < 0 {
				out = a // as a hypothesis: the relative-index form (its witness serves the relative disjunct of a goal)
				_ = b
			} else {
				out = p.Or(a, b)
			}
		case "not":
			out = p.Not(rec(t.Args[0], -pol))
		case "=>":
			out = p.Implies(rec(t.Args[0], -pol), rec(t.Args[1], pol))
		case "and":
			var as []*Term
			for _, a := range t.Args {
				as = append(as, rec(a, pol))
			}
			out = p.And(as...)
		case "or":
			var as []*Term
			for _, a := range t.Args {
				as = append(as, rec(a, pol))
			}
			out = p.Or(as...)
		case "forall", "exists":
			n := len(t.Args) - 1
			body := rec(t.Args[n], pol)
			out = p.Quant(t.Op, t.Args[:n], body)
		case "ite":
			if t.S == SBool {
				out = p.Ite(rec(t.Args[0], 0), rec(t.Args[1], pol), rec(t.Args[2], pol))
			} else {
				out = t
			}
		case "=":
			if len(t.Args) == 2 && t.Args[0].S == SBool && pol != 0 {
				// a Boolean equivalence: both directions, each side in both polarities
				l, r := t.Args[0], t.Args[1]
				out = p.And(p.Implies(rec(l, -pol), rec(r, pol)), p.Implies(rec(r, -pol), rec(l, pol)))
				if pol < 0 {
					// as a hypothesis the conjunction of the two implications is the equivalence itself
				}
			} else {
				out = t
			}
		default:
			out = t
		}
		memo[k] = out
		return out
	}
	return rec(t, pol)
}

// Script renders a satisfiability query: all hyps asserted, produce-models on.
// Shared sub-terms are introduced with define-fun so the file stays linear in
// the DAG size. Quantifier bodies are printed inline (bound variables cannot be
// referenced from top-level definitions).
func (p *TermPool) Script(hyps []*Term, comment string) string {
	// collect free vars and ufs, refcounts
	ref := map[*Term]int{}
	var order []*Term
	bound := map[*Term]bool{}
	underQ := map[*Term]bool{} // terms that (transitively) contain a bound variable
	var visit func(t *Term, inQ bool)
	var containsBound func(t *Term) bool
	cbMemo := map[*Term]bool{}
	containsBound = func(t *Term) bool {
		if v, ok := cbMemo[t]; ok {
			return v
		}
		r := bound[t]
		for _, a := range t.Args {
			if containsBound(a) {
				r = true
			}
		}
		cbMemo[t] = r
		return r
	}
	// first pass: find bound vars
	var findBound func(t *Term)
	seenFB := map[*Term]bool{}
	findBound = func(t *Term) {
		if seenFB[t] {
			return
		}
		seenFB[t] = true
		if t.Op == "forall" || t.Op == "exists" {
			n := len(t.Args) - 1
			for i := 0; i < n; i++ {
				bound[t.Args[i]] = true
			}
		}
		for _, a := range t.Args {
			findBound(a)
		}
	}
	for _, h := range hyps {
		findBound(h)
	}
	vars := map[string]Sort{}
	ufs := map[string]bool{}
	visit = func(t *Term, inQ bool) {
		ref[t]++
		if ref[t] > 1 {
			return
		}
		if t.Op == "var" && !bound[t] {
			vars[t.Name] = t.S
		}
		if t.Op == "uf" {
			ufs[t.Name] = true
		}
		for _, a := range t.Args {
			visit(a, inQ)
		}
		order = append(order, t)
	}
	for _, h := range hyps {
		visit(h, false)
	}
	_ = underQ
	var sb strings.Builder
	sb.WriteString("; " + strings.ReplaceAll(comment, "\n", "\n; ") + "\n")
	sb.WriteString("(set-option :produce-models true)\n(set-logic ALL)\n")
	vn := make([]string, 0, len(vars))
	for n := range vars {
		vn = append(vn, n)
	}
	sort.Strings(vn)
	for _, n := range vn {
		fmt.Fprintf(&sb, "(declare-const %s %s)\n", quoteName(n), vars[n])
	}
	un := make([]string, 0, len(ufs))
	for n := range ufs {
		un = append(un, n)
	}
	sort.Strings(un)
	for _, n := range un {
		p.mu.Lock()
		sig := p.UF[n]
		p.mu.Unlock()
		as := make([]string, len(sig.Args))
		for i, a := range sig.Args {
			as[i] = string(a)
		}
		fmt.Fprintf(&sb, "(declare-fun %s (%s) %s)\n", quoteName(n), strings.Join(as, " "), sig.Ret)
	}
	named := map[*Term]string{}
	k := 0
	for _, t := range order {
		if len(t.Args) == 0 || ref[t] < 2 || containsBound(t) {
			continue
		}
		if t.Op == "uf" && len(t.Args) == 0 {
			continue
		}
		var b strings.Builder
		t.write(&b, named)
		k++
		nm := fmt.Sprintf("$t%d", k)
		fmt.Fprintf(&sb, "(define-fun %s () %s %s)\n", nm, t.S, b.String())
		named[t] = nm
	}
	for _, h := range hyps {
		var b strings.Builder
		h.write(&b, named)
		fmt.Fprintf(&sb, "(assert %s)\n", b.String())
	}
	sb.WriteString("(check-sat)\n")
	return sb.String()
}

// Size returns the number of distinct nodes reachable from ts.
func Size(ts ...*Term) int {
	seen := map[*Term]bool{}
	var rec func(*Term)
	rec = func(t *Term) {
		if seen[t] {
			return
		}
		seen[t] = true
		for _, a := range t.Args {
			rec(a)
		}
	}
	for _, t := range ts {
		rec(t)
	}
	return len(seen)
}

// FreeVars returns the free variable terms of t (quantifier-bound ones excluded).
func FreeVars(ts ...*Term) []*Term {
	seen := map[*Term]bool{}
	bound := map[*Term]bool{}
	var out []*Term
	var rec func(*Term)
	rec = func(t *Term) {
		if seen[t] {
			return
		}
		seen[t] = true
		if t.Op == "forall" || t.Op == "exists" {
			n := len(t.Args) - 1
			for i := 0; i < n; i++ {
				bound[t.Args[i]] = true
			}
		}
		if t.Op == "var" {
			out = append(out, t)
		}
		for _, a := range t.Args {
			rec(a)
		}
	}
	for _, t := range ts {
		rec(t)
	}
	var r []*Term
	for _, v := range out {
		if !bound[v] {
			r = append(r, v)
		}
	}
	return r
}

// RebaseQuant makes the index terms of a quantified body trigger-friendly: when the bound variable i
// occurs as select(A, off + i) with a fixed offset term, i is replaced by (i - off) throughout, so the
// select becomes select(A, i) (absolute position) and e-matching can instantiate it from ground selects.
func (p *TermPool) RebaseQuant(vars []*Term, body *Term) *Term {
	for _, v := range vars {
		counts := map[*Term]int{}
		seen := map[*Term]bool{}
		var rec func(t *Term)
		rec = func(t *Term) {
			if seen[t] {
				return
			}
			seen[t] = true
			if t.Op == "select" {
				ix := t.Args[1]
				if ix.Op == "+" && len(ix.Args) == 2 {
					if ix.Args[1] == v && !containsVar(ix.Args[0], vars) {
						counts[ix.Args[0]]++
					} else if ix.Args[0] == v && !containsVar(ix.Args[1], vars) {
						counts[ix.Args[1]]++
					}
				}
			}
			for _, a := range t.Args {
				rec(a)
			}
		}
		rec(body)
		var best *Term
		for off, n := range counts {
			if best == nil || n > counts[best] || (n == counts[best] && off.id < best.id) {
				best = off
			}
		}
		if best != nil {
			body = p.Subst(body, map[*Term]*Term{v: p.Sub(v, best)})
		}
	}
	return body
}

func containsVar(t *Term, vars []*Term) bool {
	for _, v := range vars {
		if t == v {
			return true
		}
	}
	for _, a := range t.Args {
		if containsVar(a, vars) {
			return true
		}
	}
	return false
}
