package govc

import (
	"fmt"
	"strings"
)

// Discharge decides one obligation: hyps[:NHyps] && pc && !goal must be unsat.
func Discharge(r *FuncResult, o *Obligation, work string, timeoutS, seed int, mode string) {
	p := r.Pool
	if o.Goal.IsTrue() || o.PC.IsFalse() {
		o.Status = "discharged"
		o.Result = SolverResult{Status: "unsat", Solver: "simplifier"}
		return
	}
	hyps := append([]*Term{}, r.Hyps[:o.NHyps]...)
	hyps = append(hyps, o.PC, p.Not(o.Goal))
	script := p.Script(hyps, o.Name+"\n"+o.Text)
	res := Solve(work, o.Name, script, timeoutS, seed, mode)
	o.Result = res
	if res.Status == "unsat" {
		o.Status = "discharged"
	} else {
		o.Status = "failed"
	}
}

// Smoke checks that the hypotheses of the function (all of them, at the end) are satisfiable together
// with some path: goal `false` must not be provable. Returns "sat", "unknown" (acceptable) or "VACUOUS".
func Smoke(r *FuncResult, work string, timeoutS int) string {
	p := r.Pool
	hyps := append([]*Term{}, r.Hyps...)
	script := p.Script(hyps, "smoke "+r.Key)
	res := Solve(work, "smoke."+r.Key, script, timeoutS, 1, "race")
	switch res.Status {
	case "unsat":
		return "VACUOUS"
	case "sat":
		return "sat"
	}
	return "unknown(" + res.Status + ")"
}

func (o *Obligation) String() string {
	return fmt.Sprintf("%s [%s] %s", o.Name, strings.Join(o.Tags, ","), o.Text)
}
