package govc

import (
	"fmt"
	"sort"
	"strings"
	"sync/atomic"
)

// MaxEscalations bounds the number of long second attempts per run: a loaded machine makes a few proofs
// slow, a broken tree makes many obligations undecided and must still be reported quickly.
var MaxEscalations int32 = 6
var escalations int32

// Discharge decides one obligation: hyps[:NHyps] && pc && !goal must be unsat.
func Discharge(r *FuncResult, o *Obligation, work string, timeoutS, seed int, mode string) {
	p := r.Pool
	if o.Goal.IsTrue() || o.PC.IsFalse() {
		o.Status = "discharged"
		o.Result = SolverResult{Status: "unsat", Solver: "simplifier"}
		return
	}
	all := r.Hyps[:o.NHyps]
	goalNeg := p.Not(splitIff(p, o.Goal))
	// first attempt: only the hypotheses in the cone of influence of the goal (dropping hypotheses can
	// only make a proof harder, never unsound); second attempt: everything
	pruned := coneOfInfluence(r, all, []*Term{o.PC, goalNeg})
	var res SolverResult
	if len(pruned) < len(all)*3/4 {
		hyps := append(append([]*Term{}, pruned...), o.PC, goalNeg)
		script := p.Script(hyps, o.Name+" (cone of influence)\n"+o.Text)
		short := timeoutS
		if short > 10 {
			short = 10
		}
		res = Solve(work, o.Name+".coi", script, short, seed, "race")
		if res.Status == "unsat" && mode != "race" {
			// thorough tier: confirm with the agreement rule on the same reduced query
			res = Solve(work, o.Name+".coi", script, timeoutS, seed, mode)
		}
		if res.Status == "unsat" {
			o.Result = res
			o.Result.Solver += "/coi"
			o.Status = "discharged"
			return
		}
	}
	hyps := append(append([]*Term{}, all...), o.PC, goalNeg)
	script := p.Script(hyps, o.Name+"\n"+o.Text)
	res = Solve(work, o.Name, script, timeoutS, seed, mode)
	if res.Status != "unsat" && res.Status != "sat" && atomic.AddInt32(&escalations, 1) <= MaxEscalations {
		// undecided within the budget: one more attempt with four times the budget before anything is
		// reported (a loaded machine must not turn a 5 s proof into an alarm)
		long := timeoutS * 4
		if long > 120 {
			long = 120
		}
		if r2 := Solve(work, o.Name+".long", script, long, seed+1, "race"); r2.Status == "unsat" || r2.Status == "sat" {
			res = r2
		}
	}
	o.Result = res
	if res.Status == "unsat" {
		o.Status = "discharged"
		return
	}
	o.Status = "failed"
	if res.Status == "sat" {
		return
	}
	// undecided: try the conjuncts of the goal one by one (each must be proved)
	g := splitIff(p, o.Goal)
	var parts []*Term
	var flat func(t *Term, guard []*Term)
	flat = func(t *Term, guard []*Term) {
		switch {
		case t.Op == "and":
			for _, a := range t.Args {
				flat(a, guard)
			}
		case t.Op == "=>" && t.Args[1].Op == "and":
			flat(t.Args[1], append(append([]*Term{}, guard...), t.Args[0]))
		default:
			parts = append(parts, p.Implies(p.And(guard...), t))
		}
	}
	flat(g, nil)
	if len(parts) < 2 {
		return
	}
	total := 0.0
	solvers := map[string]bool{}
	for i, part := range parts {
		h := append([]*Term{}, r.Hyps[:o.NHyps]...)
		h = append(h, o.PC, p.Not(part))
		sc := p.Script(h, fmt.Sprintf("%s (conjunct %d of %d)\n%s", o.Name, i+1, len(parts), o.Text))
		pr := Solve(work, fmt.Sprintf("%s.part%d", o.Name, i), sc, timeoutS, seed, mode)
		total += pr.Seconds
		if pr.Status != "unsat" {
			o.Result = pr
			o.Result.Output = fmt.Sprintf("conjunct %d of %d not proved: %s\n%s", i+1, len(parts), part.String(), pr.Output)
			if len(o.Result.Output) > 6000 {
				o.Result.Output = o.Result.Output[:6000]
			}
			return
		}
		solvers[pr.Solver] = true
	}
	names := []string{}
	for s := range solvers {
		names = append(names, s)
	}
	sort.Strings(names)
	o.Result = SolverResult{Status: "unsat", Solver: strings.Join(names, "+") + "/split", Seconds: total}
	o.Status = "discharged"
}

// hasQuant reports whether a term contains a quantifier.
func hasQuantMemo(t *Term, memo map[*Term]bool) bool {
	if v, ok := memo[t]; ok {
		return v
	}
	r := t.Op == "forall" || t.Op == "exists"
	if !r {
		for _, a := range t.Args {
			if hasQuantMemo(a, memo) {
				r = true
				break
			}
		}
	}
	memo[t] = r
	return r
}

// Smoke is the vacuity guard of one function. Two queries:
//  1. the quantifier-free hypotheses alone (requires, assumes, object invariants, most library post-conditions)
//     together with the path condition of a post-condition obligation (the function's exit): dropping the
//     quantified hypotheses only weakens the set, so `unsat` here means the contract's assumptions are
//     contradictory or no exit is reachable — VACUOUS; `sat` shows the quantifier-free part is consistent and
//     an exit reachable under it;
//  2. all hypotheses: `false` must not be provable (usually `unknown` within the budget: quantifiers).
// Returns "VACUOUS", "sat", "qf-sat" or "unknown(...)".
func Smoke(r *FuncResult, work string, timeoutS int) string {
	p := r.Pool
	memo := map[*Term]bool{}
	var qf []*Term
	for _, h := range r.Hyps {
		if !hasQuantMemo(h, memo) {
			qf = append(qf, h)
		}
	}
	qfSat := false
	{
		hyps := append([]*Term{}, qf...)
		// an exit: the disjunction of the path conditions of the post-condition obligations (if any)
		var exits []*Term
		for _, o := range r.Obls {
			if strings.Contains(o.Name, "#post.") && !hasQuantMemo(o.PC, memo) {
				exits = append(exits, o.PC)
			}
		}
		if len(exits) > 0 {
			hyps = append(hyps, p.Or(exits...))
		}
		res := Solve(work, "smokeqf."+r.Key, p.Script(hyps, "smoke (quantifier-free part, exit reachable) "+r.Key), timeoutS, 1, "race")
		switch res.Status {
		case "unsat":
			return "VACUOUS"
		case "sat":
			qfSat = true
		}
	}
	hyps := append([]*Term{}, r.Hyps...)
	script := p.Script(hyps, "smoke "+r.Key)
	res := Solve(work, "smoke."+r.Key, script, timeoutS, 1, "race")
	switch res.Status {
	case "unsat":
		return "VACUOUS"
	case "sat":
		return "sat"
	}
	if qfSat {
		return "qf-sat"
	}
	return "unknown(" + res.Status + ")"
}

// Reachable checks the path condition of one obligation against the quantifier-free hypotheses in force at it:
// "unsat" means the obligation sits on a path that the contract's assumptions (or the code) exclude — dead code
// or a vacuity hole; "sat"/"unknown" otherwise. A diagnostic (the cover check behind each obligation).
func Reachable(r *FuncResult, o *Obligation, work string, timeoutS int) string {
	p := r.Pool
	if o.PC.IsTrue() {
		return "sat"
	}
	memo := map[*Term]bool{}
	var hyps []*Term
	for _, h := range r.Hyps[:o.NHyps] {
		if !hasQuantMemo(h, memo) {
			hyps = append(hyps, h)
		}
	}
	if hasQuantMemo(o.PC, memo) {
		return "unknown"
	}
	hyps = append(hyps, o.PC)
	res := Solve(work, "reach."+o.Name, p.Script(hyps, "reachability of "+o.Name), timeoutS, 1, "race")
	return res.Status
}

func (o *Obligation) String() string {
	return fmt.Sprintf("%s [%s] %s", o.Name, strings.Join(o.Tags, ","), o.Text)
}

// splitIff rewrites Boolean equalities that contain quantifiers into two implications
// (solvers give up on a negated iff over a quantified side far more often than on implications).
func splitIff(p *TermPool, t *Term) *Term {
	switch t.Op {
	case "=":
		if t.Args[0].S == SBool && (hasQuant(t.Args[0]) || hasQuant(t.Args[1])) {
			a, b := splitIff(p, t.Args[0]), splitIff(p, t.Args[1])
			return p.And(p.Implies(a, b), p.Implies(b, a))
		}
	case "and":
		as := make([]*Term, len(t.Args))
		for i, a := range t.Args {
			as[i] = splitIff(p, a)
		}
		return p.And(as...)
	case "=>":
		return p.Implies(t.Args[0], splitIff(p, t.Args[1]))
	case "forall":
		n := len(t.Args) - 1
		body := t.Args[n]
		if body.Op == "=" && body.Args[0].S == SBool && (hasQuant(body.Args[0]) || hasQuant(body.Args[1])) {
			vars := t.Args[:n]
			return p.And(p.Forall(vars, p.Implies(body.Args[0], body.Args[1])), p.Forall(vars, p.Implies(body.Args[1], body.Args[0])))
		}
	}
	return t
}

func hasQuant(t *Term) bool {
	if t.Op == "forall" || t.Op == "exists" {
		return true
	}
	for _, a := range t.Args {
		if hasQuant(a) {
			return true
		}
	}
	return false
}

var weakSymbols = map[string]bool{"dtype": true, "refkind": true, "strlen": true, "lexrank": true, "bcontent": true}

func termSymbols(t *Term, memo map[*Term]map[string]bool) map[string]bool {
	if s, ok := memo[t]; ok {
		return s
	}
	out := map[string]bool{}
	var rec func(x *Term)
	seen := map[*Term]bool{}
	rec = func(x *Term) {
		if seen[x] {
			return
		}
		seen[x] = true
		if (x.Op == "var" || x.Op == "uf") && !weakSymbols[x.Name] && !strings.HasPrefix(x.Name, "$A") && !strings.HasPrefix(x.Name, "new$") {
			out[x.Name] = true
		}
		for _, a := range x.Args {
			rec(a)
		}
	}
	rec(t)
	memo[t] = out
	return out
}

// coneOfInfluence selects the hypotheses connected to the goal through shared symbols (transitively).
func coneOfInfluence(r *FuncResult, hyps []*Term, goal []*Term) []*Term {
	r.symMu.Lock()
	if r.symMemo == nil {
		r.symMemo = map[*Term]map[string]bool{}
	}
	syms := make([]map[string]bool, len(hyps))
	for i, h := range hyps {
		syms[i] = termSymbols(h, r.symMemo)
	}
	have := map[string]bool{}
	for _, g := range goal {
		for s := range termSymbols(g, r.symMemo) {
			have[s] = true
		}
	}
	r.symMu.Unlock()
	in := make([]bool, len(hyps))
	for changed := true; changed; {
		changed = false
		for i := range hyps {
			if in[i] {
				continue
			}
			hit := len(syms[i]) == 0
			for s := range syms[i] {
				if have[s] {
					hit = true
					break
				}
			}
			if hit {
				in[i] = true
				changed = true
				for s := range syms[i] {
					have[s] = true
				}
			}
		}
	}
	var out []*Term
	for i, h := range hyps {
		if in[i] {
			out = append(out, h)
		}
	}
	return out
}
