package govc

import (
	"fmt"
	"sort"
	"strings"
)

// Discharge decides one obligation: hyps[:NHyps] && pc && !goal must be unsat.
func Discharge(r *FuncResult, o *Obligation, work string, timeoutS, seed int, mode string) {
	p := r.Pool
	if o.Goal.IsTrue() || o.PC.IsFalse() {
		o.Status = "discharged"
		o.Result = SolverResult{Status: "unsat", Solver: "simplifier"}
		return
	}
	hyps := append([]*Term{}, r.Hyps[:o.NHyps]...)
	hyps = append(hyps, o.PC, p.Not(splitIff(p, o.Goal)))
	script := p.Script(hyps, o.Name+"\n"+o.Text)
	res := Solve(work, o.Name, script, timeoutS, seed, mode)
	o.Result = res
	if res.Status == "unsat" {
		o.Status = "discharged"
		return
	}
	o.Status = "failed"
	if res.Status == "sat" {
		return
	}
	// undecided: try the conjuncts of the goal one by one (each must be proved)
	g := splitIff(p, o.Goal)
	var parts []*Term
	var flat func(t *Term, guard []*Term)
	flat = func(t *Term, guard []*Term) {
		switch {
		case t.Op == "and":
			for _, a := range t.Args {
				flat(a, guard)
			}
		case t.Op == "=>" && t.Args[1].Op == "and":
			flat(t.Args[1], append(append([]*Term{}, guard...), t.Args[0]))
		default:
			parts = append(parts, p.Implies(p.And(guard...), t))
		}
	}
	flat(g, nil)
	if len(parts) < 2 {
		return
	}
	total := 0.0
	solvers := map[string]bool{}
	for i, part := range parts {
		h := append([]*Term{}, r.Hyps[:o.NHyps]...)
		h = append(h, o.PC, p.Not(part))
		sc := p.Script(h, fmt.Sprintf("%s (conjunct %d of %d)\n%s", o.Name, i+1, len(parts), o.Text))
		pr := Solve(work, fmt.Sprintf("%s.part%d", o.Name, i), sc, timeoutS, seed, mode)
		total += pr.Seconds
		if pr.Status != "unsat" {
			o.Result = pr
			o.Result.Output = fmt.Sprintf("conjunct %d of %d not proved: %s\n%s", i+1, len(parts), part.String(), pr.Output)
			if len(o.Result.Output) > 6000 {
				o.Result.Output = o.Result.Output[:6000]
			}
			return
		}
		solvers[pr.Solver] = true
	}
	names := []string{}
	for s := range solvers {
		names = append(names, s)
	}
	sort.Strings(names)
	o.Result = SolverResult{Status: "unsat", Solver: strings.Join(names, "+") + "/split", Seconds: total}
	o.Status = "discharged"
}

// Smoke checks that the hypotheses of the function (all of them, at the end) are satisfiable together
// with some path: goal `false` must not be provable. Returns "sat", "unknown" (acceptable) or "VACUOUS".
func Smoke(r *FuncResult, work string, timeoutS int) string {
	p := r.Pool
	hyps := append([]*Term{}, r.Hyps...)
	script := p.Script(hyps, "smoke "+r.Key)
	res := Solve(work, "smoke."+r.Key, script, timeoutS, 1, "race")
	switch res.Status {
	case "unsat":
		return "VACUOUS"
	case "sat":
		return "sat"
	}
	return "unknown(" + res.Status + ")"
}

func (o *Obligation) String() string {
	return fmt.Sprintf("%s [%s] %s", o.Name, strings.Join(o.Tags, ","), o.Text)
}

// splitIff rewrites Boolean equalities that contain quantifiers into two implications
// (solvers give up on a negated iff over a quantified side far more often than on implications).
func splitIff(p *TermPool, t *Term) *Term {
	switch t.Op {
	case "=":
		if t.Args[0].S == SBool && (hasQuant(t.Args[0]) || hasQuant(t.Args[1])) {
			a, b := splitIff(p, t.Args[0]), splitIff(p, t.Args[1])
			return p.And(p.Implies(a, b), p.Implies(b, a))
		}
	case "and":
		as := make([]*Term, len(t.Args))
		for i, a := range t.Args {
			as[i] = splitIff(p, a)
		}
		return p.And(as...)
	case "=>":
		return p.Implies(t.Args[0], splitIff(p, t.Args[1]))
	case "forall":
		n := len(t.Args) - 1
		body := t.Args[n]
		if body.Op == "=" && body.Args[0].S == SBool && (hasQuant(body.Args[0]) || hasQuant(body.Args[1])) {
			vars := t.Args[:n]
			return p.And(p.Forall(vars, p.Implies(body.Args[0], body.Args[1])), p.Forall(vars, p.Implies(body.Args[1], body.Args[0])))
		}
	}
	return t
}

func hasQuant(t *Term) bool {
	if t.Op == "forall" || t.Op == "exists" {
		return true
	}
	for _, a := range t.Args {
		if hasQuant(a) {
			return true
		}
	}
	return false
}
