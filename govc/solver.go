package govc

import (
	"bytes"
	"context"
	"os"
	"os/exec"
	"path/filepath"
	"strconv"
	"strings"
	"sync"
	"time"
)

// SolverResult is the outcome of one query on one or several back ends.
type SolverResult struct {
	Status  string  // "unsat", "sat", "unknown", "timeout", "error"
	Solver  string  // which back end answered
	Seconds float64 // wall time of the deciding back end
	Output  string  // raw output (first 4k) of the deciding back end
	Model   string  // model text when sat
	All     map[string]string
}

type backend struct {
	name string
	argv func(file string, timeoutS int, seed int) []string
}

var backends = []backend{
	{"z3-new", func(f string, t int, seed int) []string {
		return []string{"z3-new", "-T:" + itoa(t), "sat.random_seed=" + itoa(seed), "smt.random_seed=" + itoa(seed), f}
	}},
	{"z3", func(f string, t int, seed int) []string {
		return []string{"z3", "-T:" + itoa(t), "sat.random_seed=" + itoa(seed), "smt.random_seed=" + itoa(seed), f}
	}},
	{"cvc5", func(f string, t int, seed int) []string {
		return []string{"cvc5", "--tlimit=" + itoa(t*1000), "--seed=" + itoa(seed), "--produce-models", f}
	}},
}

func itoa(i int) string { return strconv.Itoa(i) }

// Solve writes the script to dir/name.smt2 and races the back ends.
// mode "race": the first definite answer (sat/unsat) wins.
// mode "all": all back ends run to completion; unsat needs two agreeing back ends and no sat.
func Solve(dir, name, script string, timeoutS int, seed int, mode string) SolverResult {
	_ = os.MkdirAll(dir, 0o755)
	file := filepath.Join(dir, sanitizeFile(name)+".smt2")
	withModel := script + "(get-model)\n"
	if err := os.WriteFile(file, []byte(withModel), 0o644); err != nil {
		return SolverResult{Status: "error", Output: err.Error()}
	}
	ctx, cancel := context.WithCancel(context.Background())
	defer cancel()
	type one struct {
		name   string
		status string
		out    string
		secs   float64
	}
	ch := make(chan one, len(backends))
	var wg sync.WaitGroup
	for _, be := range backends {
		be := be
		wg.Add(1)
		go func() {
			defer wg.Done()
			argv := be.argv(file, timeoutS, seed)
			start := time.Now()
			c, cancelC := context.WithTimeout(ctx, time.Duration(timeoutS+2)*time.Second)
			defer cancelC()
			cmd := exec.CommandContext(c, argv[0], argv[1:]...)
			var out bytes.Buffer
			cmd.Stdout = &out
			cmd.Stderr = &out
			_ = cmd.Run()
			s := out.String()
			first := strings.TrimSpace(strings.SplitN(s, "\n", 2)[0])
			st := "unknown"
			switch {
			case first == "unsat":
				st = "unsat"
			case first == "sat":
				st = "sat"
			case first == "timeout" || strings.Contains(first, "timeout") || c.Err() != nil:
				st = "timeout"
			case strings.HasPrefix(first, "(error") || strings.Contains(first, "rror"):
				st = "error"
			}
			ch <- one{be.name, st, s, time.Since(start).Seconds()}
		}()
	}
	go func() { wg.Wait(); close(ch) }()
	res := SolverResult{Status: "unknown", All: map[string]string{}}
	var unsatBy []one
	for o := range ch {
		res.All[o.name] = o.status
		if len(o.out) > 4096 && o.status != "sat" {
			o.out = o.out[:4096]
		}
		switch o.status {
		case "sat":
			if mode == "race" || true {
				res.Status, res.Solver, res.Seconds, res.Output = "sat", o.name, o.secs, firstN(o.out, 4096)
				res.Model = o.out
				if mode == "race" {
					cancel()
					return res
				}
			}
		case "unsat":
			unsatBy = append(unsatBy, o)
			if mode == "race" {
				res.Status, res.Solver, res.Seconds, res.Output = "unsat", o.name, o.secs, firstN(o.out, 200)
				cancel()
				return res
			}
		default:
			if res.Status == "unknown" && res.Solver == "" {
				res.Output = firstN(o.out, 1024)
				if o.status == "timeout" {
					res.Status = "timeout"
				}
				if o.status == "error" && res.Status != "timeout" {
					res.Status = "error"
				}
			}
		}
	}
	if mode != "race" {
		if res.Status == "sat" {
			return res // a sat from anyone overrides unsat (disagreement is a failure)
		}
		if len(unsatBy) >= 2 {
			res.Status = "unsat"
			names := []string{}
			secs := 0.0
			for _, o := range unsatBy {
				names = append(names, o.name)
				if o.secs > secs {
					secs = o.secs
				}
			}
			res.Solver = strings.Join(names, "+")
			res.Seconds = secs
			return res
		}
		if len(unsatBy) == 1 {
			res.Status = "unsat1"
			res.Solver = unsatBy[0].name
			res.Seconds = unsatBy[0].secs
		}
	}
	return res
}

func firstN(s string, n int) string {
	if len(s) > n {
		return s[:n]
	}
	return s
}

func sanitizeFile(s string) string {
	var sb strings.Builder
	for _, r := range s {
		switch {
		case r >= 'a' && r <= 'z', r >= 'A' && r <= 'Z', r >= '0' && r <= '9', r == '_', r == '.', r == '-', r == '#', r == '@':
			sb.WriteRune(r)
		default:
			sb.WriteByte('_')
		}
	}
	out := sb.String()
	if len(out) > 180 {
		out = out[:180]
	}
	return out
}
