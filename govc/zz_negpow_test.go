package govc
import "testing"
func TestNegPow(t *testing.T) {
	e, err := ParseExpr("x > -2^62 && y == -3 && z == 2^3 - 1")
	if err != nil { t.Fatal(err) }
	var find func(*Expr) bool
	find = func(x *Expr) bool {
		if x.Kind == "int" && x.Int.Sign() < 0 && x.Int.BitLen() == 63 { return true }
		for _, a := range x.Args { if find(a) { return true } }
		return false
	}
	if !find(e) { t.Fatalf("-2^62 not parsed as a negative number") }
}
