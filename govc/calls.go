package govc

import (
	"fmt"
	"go/token"
	"go/types"
	"sort"
	"strings"

	"golang.org/x/tools/go/ssa"
)

// ---------------------------------------------------------------- engine lookups

func (e *Engine) ifaceMethodKey(c *ssa.CallCommon) string {
	t := c.Value.Type()
	if tp, ok := t.(*types.TypeParam); ok {
		// method of the constraint interface
		if n, ok := tp.Constraint().(*types.Named); ok {
			return namedKeyPath(n) + "." + c.Method.Name()
		}
		return "typeparam." + c.Method.Name()
	}
	switch n := t.(type) {
	case *types.Named:
		return ifaceKey(n, c.Method)
	case *types.Alias:
		if nn, ok := types.Unalias(n).(*types.Named); ok {
			return ifaceKey(nn, c.Method)
		}
	}
	// unnamed interface (e.g. error is Named in universe; interface{...} literals)
	return "iface." + c.Method.Name()
}

func namedKeyPath(n *types.Named) string {
	o := n.Origin().Obj()
	if o.Pkg() == nil {
		return "(" + o.Name() + ")"
	}
	return o.Pkg().Path() + ".(" + o.Name() + ")"
}

// ifaceKey finds the interface (possibly embedded) that declares the method, so that a contract written on
// the declaring interface (ILedger.Get) also serves the embedding one (IFinalityLedger.Get).
func ifaceKey(n *types.Named, m *types.Func) string {
	if it, ok := n.Underlying().(*types.Interface); ok {
		for i := 0; i < it.NumEmbeddeds(); i++ {
			if en, ok := it.EmbeddedType(i).(*types.Named); ok {
				if eit, ok := en.Underlying().(*types.Interface); ok {
					for j := 0; j < eit.NumMethods(); j++ {
						if eit.Method(j).Name() == m.Name() {
							return ifaceKey(en, m)
						}
					}
				}
			}
		}
	}
	return namedKeyPath(n) + "." + m.Name()
}

func (e *Engine) isPureCall(key string, fn *ssa.Function) bool {
	if e.DB.PureFns[key] {
		return true
	}
	i := strings.LastIndex(key, ".(")
	pkg := ""
	if i >= 0 {
		pkg = key[:i]
	} else if j := strings.LastIndex(key, "."); j >= 0 {
		pkg = key[:j]
	}
	return e.DB.PurePkgs[pkg]
}

// ---------------------------------------------------------------- calls

func (vc *VC) execCall(fr *frame, st *State, call *ssa.Call) Val {
	return vc.doCall(fr, st, call, call.Common(), call.Type(), call.Pos())
}

func (vc *VC) doCall(fr *frame, st *State, instr ssa.Instruction, c *ssa.CallCommon, rt types.Type, pos token.Pos) Val {
	vc.stats.calls++
	p := vc.P
	if b, ok := c.Value.(*ssa.Builtin); ok {
		return vc.execBuiltin(fr, st, b, c, rt, pos)
	}
	var args []Val
	if c.IsInvoke() {
		recv := vc.operand(fr, st, c.Value)
		vc.check(st, "nil", fr.prefix+"invoke."+c.Method.Name(), "method call on nil interface ."+c.Method.Name(), p.Ne(vc.asInt(recv), p.Int(0)), pos)
		args = append(args, recv)
		for _, a := range c.Args {
			args = append(args, vc.operand(fr, st, a))
		}
		key := vc.E.ifaceMethodKey(c)
		if in := vc.E.intrinsic(key); in != nil {
			return in.exec(vc, fr, st, c, args, rt, pos)
		}
		// role contracts: an interface value loaded from a struct field F uses "(Iface_F).Method" when present
		if rk := roleKey(key, c.Value); rk != "" && vc.E.DB.Contracts[rk] != nil {
			key = rk
		} else if fvv, ok := c.Value.(*ssa.FreeVar); ok {
			for i, f := range fr.fn.FreeVars {
				if f == fvv && i < len(fr.fvRoles) && fr.fvRoles[i] != "" {
					if rk := roleKeyField(key, fr.fvRoles[i]); vc.E.DB.Contracts[rk] != nil {
						key = rk
					}
				}
			}
		}
		if ct := vc.E.DB.Contracts[key]; ct != nil {
			sig := c.Method.Type().(*types.Signature)
			return vc.callByContract(fr, st, ct, nil, sig, c.Value.Type(), args, rt, pos)
		}
		if vc.E.isPureCall(key, nil) {
			return vc.freshVal(st, rt, "pure$"+c.Method.Name())
		}
		return vc.unknownCall(fr, st, c, key, args, rt)
	}
	for _, a := range c.Args {
		args = append(args, vc.operand(fr, st, a))
	}
	callee := c.StaticCallee()
	var freeVars []Val
	if callee == nil {
		fv := vc.operand(fr, st, c.Value)
		if fv.Fn != nil && len(fv.Fn.Alts) > 0 {
			return vc.callAlternatives(fr, st, fv.Fn.Alts, args, rt, pos)
		}
		if fv.Fn != nil && strings.HasSuffix(fv.Fn.Fn.Name(), "$bound") && len(fv.Fn.Fn.Blocks) > 0 {
			// a bound-method value: same treatment as in a case split over several closures (the wrapper
			// is inlined, so that the receiver's role contract applies)
			return vc.callAlternatives(fr, st, []FuncAlt{{Cond: p.True(), F: fv.Fn}}, args, rt, pos)
		}
		if fv.Fn != nil {
			callee = fv.Fn.Fn
			freeVars = fv.Fn.Bindings
			vc.pendingRoles = fv.Fn.Roles
		} else if nt, isNamed := c.Value.Type().(*types.Named); isNamed && nt.Obj().Pkg() != nil && vc.E.DB.Contracts[nt.Obj().Pkg().Path()+".("+nt.Obj().Name()+").call"] != nil {
			// a value of a named function type with a contract on the type ("func (cb T) call(args)")
			ct := vc.E.DB.Contracts[nt.Obj().Pkg().Path()+".("+nt.Obj().Name()+").call"]
			vc.check(st, "nil", fr.prefix+"callfn", "call of nil function value", p.Ne(vc.asInt(fv), p.Int(0)), pos)
			sig := nt.Underlying().(*types.Signature)
			return vc.callByContract(fr, st, ct, nil, sig, nt, append([]Val{fv}, args...), rt, pos)
		} else if key, recv, recvT, ok := vc.funcFieldKey(fr, st, c.Value); ok && vc.E.DB.Contracts[key] != nil {
			sig := c.Value.Type().Underlying().(*types.Signature)
			return vc.callByContract(fr, st, vc.E.DB.Contracts[key], nil, sig, recvT, append([]Val{recv}, args...), rt, pos)
		} else {
			vc.check(st, "nil", fr.prefix+"callfn", "call of nil function value", p.Ne(vc.asInt(fv), p.Int(0)), pos)
			return vc.unknownCall(fr, st, c, "funcvalue", args, rt)
		}
	} else if mc, ok := c.Value.(*ssa.MakeClosure); ok {
		fv := vc.operand(fr, st, mc)
		if fv.Fn != nil {
			freeVars = fv.Fn.Bindings
			vc.pendingRoles = fv.Fn.Roles
		}
	}
	if o := callee.Origin(); o != nil && (len(callee.Blocks) == 0 || callee.Synthetic == "") {
		callee = o
	}
	key := FuncKey(callee)
	if in := vc.E.intrinsic(key); in != nil {
		return in.exec(vc, fr, st, c, args, rt, pos)
	}
	if ct := vc.E.DB.Contracts[key]; ct != nil && !ct.Inline {
		return vc.callByContract(fr, st, ct, callee, callee.Signature, nil, args, rt, pos)
	}
	if len(callee.Blocks) > 0 && (vc.E.inRepo(pkgOf(callee)) || callee.Parent() != nil || callee.Synthetic != "") && !vc.E.isPureCall(key, callee) {
		recursive := false
		for _, f := range vc.inlineStack {
			if f == callee {
				recursive = true
			}
		}
		if !recursive && fr.depth < maxInlineDepth {
			return vc.inlineCall(fr, st, callee, args, freeVars, rt, pos)
		}
		vc.note("call to %s not inlined (recursion or depth): effects havocked", key)
	}
	if vc.E.isPureCall(key, callee) {
		r := vc.freshVal(st, rt, "pure$"+callee.Name())
		return r
	}
	return vc.unknownCall(fr, st, c, key, args, rt)
}

func (vc *VC) inlineCall(fr *frame, st *State, callee *ssa.Function, args []Val, freeVars []Val, rt types.Type, pos token.Pos) Val {
	vc.stats.inlined++
	n := vc.counter("inline:" + fr.prefix + callee.Name())
	prefix := fmt.Sprintf("%s%s@%d/", fr.prefix, callee.Name(), n)
	vc.inlineStack = append(vc.inlineStack, callee)
	exit, results, _ := vc.execFunction(callee, args, freeVars, st, fr.depth+1, prefix)
	vc.inlineStack = vc.inlineStack[:len(vc.inlineStack)-1]
	if exit == nil {
		st.pc = vc.P.False()
		return vc.zeroValOrTuple(st, rt)
	}
	defers := st.defers
	*st = *exit
	st.defers = defers
	return tupleOf(results, rt)
}

func tupleOf(results []Val, rt types.Type) Val {
	if tu, ok := rt.(*types.Tuple); ok {
		if tu.Len() == 0 {
			return Val{K: VStruct}
		}
		return Val{K: VStruct, Fs: results}
	}
	if len(results) == 1 {
		return results[0]
	}
	return Val{K: VStruct, Fs: results}
}

func (vc *VC) zeroValOrTuple(st *State, rt types.Type) Val {
	if tu, ok := rt.(*types.Tuple); ok && tu.Len() == 0 {
		return Val{K: VStruct}
	}
	return vc.zeroVal(st, rt)
}

// unknownCall: neither contract, nor body, nor declared pure.
func (vc *VC) unknownCall(fr *frame, st *State, c *ssa.CallCommon, key string, args []Val, rt types.Type) Val {
	ms := newModSet()
	vc.unknownCallMods(c, ms)
	// cells whose address is passed
	for i, a := range args {
		_ = i
		if a.K == VAddr && a.A.K == ACell {
			k := cellKey{a.A.Cell, a.A.CellID}
			t := a.A.Cell.Type().Underlying().(*types.Pointer).Elem()
			st.cells[k] = vc.freshVal(st, t, a.A.Cell.Comment+"@call")
		}
		if a.K == VSlice && a.Org != nil && a.Org.K == ACell {
			k := cellKey{a.Org.Cell, a.Org.CellID}
			t := a.Org.Cell.Type().Underlying().(*types.Pointer).Elem()
			st.cells[k] = vc.freshVal(st, t, a.Org.Cell.Comment+"@call")
		}
	}
	n := vc.counter("unknown:" + key)
	what := fmt.Sprintf("%s#%d", shortLabel(key), n)
	var keys []string
	for k := range ms.heap {
		keys = append(keys, k)
	}
	sort.Strings(keys)
	desc := strings.Join(keys, ",")
	if ms.all || ms.heap["*iface"] {
		desc = "everything"
	}
	vc.note("call to %s has no contract: havoc {%s}", key, desc)
	ms.alloc = true
	vc.havocMods(fr, st, ms, what)
	return vc.freshVal(st, rt, "ret$"+shortLabel(key))
}

func (vc *VC) runDefers(fr *frame, st *State) {
	// LIFO; only defers registered by this frame
	var keep []deferred
	var mine []deferred
	for _, d := range st.defers {
		if d.fr == fr {
			mine = append(mine, d)
		} else {
			keep = append(keep, d)
		}
	}
	st.defers = keep
	for i := len(mine) - 1; i >= 0; i-- {
		d := mine[i]
		vc.doCall(fr, st, d.call, d.call.Common(), types.NewTuple(), d.call.Pos())
	}
}

// ---------------------------------------------------------------- builtins

func (vc *VC) execBuiltin(fr *frame, st *State, b *ssa.Builtin, c *ssa.CallCommon, rt types.Type, pos token.Pos) Val {
	p := vc.P
	var args []Val
	for _, a := range c.Args {
		args = append(args, vc.operand(fr, st, a))
	}
	switch b.Name() {
	case "len":
		a := args[0]
		switch {
		case a.K == VSlice:
			return scalar(a.Len)
		case isString(c.Args[0].Type()):
			return scalar(p.App("strlen", SInt, vc.asInt(a)))
		}
		switch u := c.Args[0].Type().Underlying().(type) {
		case *types.Map:
			dom := p.Select(vc.heapGet(st, mapKey(u)+"#dom", SArrIAB), vc.asInt(a))
			n := p.App("maplen", SInt, dom)
			vc.assumeGlobal(p.Le(p.Int(0), n))
			return scalar(p.Ite(p.Eq(vc.asInt(a), p.Int(0)), p.Int(0), n))
		case *types.Array:
			return scalar(p.Int(u.Len()))
		case *types.Pointer:
			if at, ok := u.Elem().Underlying().(*types.Array); ok {
				return scalar(p.Int(at.Len()))
			}
		case *types.Chan:
			r := p.Fresh("chanlen", SInt)
			vc.assumeGlobal(p.Le(p.Int(0), r))
			return scalar(r)
		}
	case "cap":
		if args[0].K == VSlice {
			return scalar(args[0].Cap)
		}
		if at, ok := c.Args[0].Type().Underlying().(*types.Array); ok {
			return scalar(p.Int(at.Len()))
		}
	case "append":
		return vc.execAppend(fr, st, c, args, pos)
	case "copy":
		return vc.execCopy(fr, st, c, args, pos)
	case "delete":
		mt := c.Args[0].Type().Underlying().(*types.Map)
		m, k := vc.asInt(args[0]), vc.asInt(args[1])
		dk := mapKey(mt) + "#dom"
		dom := vc.heapGet(st, dk, SArrIAB)
		nd := p.Store(dom, m, p.Store(p.Select(dom, m), k, p.False()))
		vc.heapSet(st, dk, p.Ite(p.Eq(m, p.Int(0)), dom, nd))
		vc.written[dk] = true
		return Val{K: VStruct}
	case "print", "println":
		return Val{K: VStruct}
	case "min", "max":
		a, bb := vc.asInt(args[0]), vc.asInt(args[1])
		if b.Name() == "min" {
			return scalar(p.Ite(p.Le(a, bb), a, bb))
		}
		return scalar(p.Ite(p.Le(a, bb), bb, a))
	case "ssa:wrapnilchk":
		vc.check(st, "nil", fr.prefix+"wrapnilchk", "nil receiver in method value", p.Ne(vc.asInt(args[0]), p.Int(0)), pos)
		return args[0]
	case "close":
		return Val{K: VStruct}
	case "recover":
		return scalar(p.Int(0))
	}
	if b.Name() == "ssa:deferstack" {
		return scalar(p.Int(0))
	}
	vc.note("builtin %s not modelled: result unconstrained", b.Name())
	return vc.freshVal(st, rt, "builtin$"+b.Name())
}

func (vc *VC) execAppend(fr *frame, st *State, c *ssa.CallCommon, args []Val, pos token.Pos) Val {
	p := vc.P
	s := args[0]
	stype := c.Args[0].Type().Underlying().(*types.Slice)
	et := stype.Elem()
	if s.K != VSlice {
		s = vc.freshSlice("badappend")
	}
	// second argument is a slice (variadic form) or a string
	add := args[1]
	var addLen *Term
	if add.K == VSlice {
		addLen = add.Len
	} else if isString(c.Args[1].Type()) {
		addLen = p.App("strlen", SInt, vc.asInt(add))
		add = vc.bytesOfContent(st, vc.asInt(add), addLen)
	} else {
		vc.note("append with unsupported second argument")
		return vc.freshVal(st, c.Args[0].Type(), "append")
	}
	newLen := p.Add(s.Len, addLen)
	fits := p.Le(newLen, s.Cap)
	// Case split on capacity: in place (elements written into the shared backing array) or reallocation.
	_, elemIsStruct := structOf(et)
	if elemIsStruct {
		// elements are struct values living at elemRef(arr, i): copying them needs per-field copies.
		// Supported shape: append(s, single literal element) i.e. add.Len == 1 (the common Go idiom).
		return vc.appendStructElems(fr, st, s, add, et, newLen, fits, pos)
	}
	comps := elemComps(et)
	memOK := false
	var memRowOld, memX *Term
	if one, ok := addLen.IntVal(); ok && one.IsInt64() && one.Int64() == 1 && len(comps) == 1 && comps[0].sort == SInt {
		m0 := vc.heapGet(st, elemMapKey(et), ArrSort(SInt, ArrSort(SInt, SInt)))
		memRowOld = p.Select(m0, s.Arr)
		memX = p.Select(p.Select(m0, add.Arr), add.Off)
		memOK = true
	}
	// in-place result
	inPlace := st.clone()
	realloc := st.clone()
	narr := vc.newRef(realloc, "append")
	ncap := p.Fresh("appendcap", SInt)
	vc.assume(realloc, p.Le(newLen, ncap))
	vc.assume(realloc, p.Le(ncap, p.Int(1<<40)))
	for _, cp := range comps {
		key := elemMapKey(et) + cp.suffix
		srt := ArrSort(SInt, ArrSort(SInt, cp.sort))
		m := vc.heapGet(st, key, srt)
		src := p.Select(m, add.Arr)
		// in place: dst[off+len+j] = src[addoff+j] for j < addLen; expressed with a fresh inner array and a quantified frame
		dstIn := p.Select(m, s.Arr)
		resIn := vc.copyRange(st, dstIn, p.Add(s.Off, s.Len), src, add.Off, addLen, cp.sort, "append")
		vc.heapSet(inPlace, key, p.Store(m, s.Arr, resIn))
		// realloc: new[j] = old[off+j] for j < len; new[len+j] = src[addoff+j]
		fresh := vc.copyRange(st, vc.zeroInner(cp.sort), p.Int(0), dstIn, s.Off, s.Len, cp.sort, "appendold")
		fresh2 := vc.copyRange(st, fresh, s.Len, src, add.Off, addLen, cp.sort, "appendnew")
		vc.heapSet(realloc, key, p.Store(m, narr, fresh2))
		vc.written[key] = true
	}
	inPlace.pc = p.And(st.pc, fits)
	realloc.pc = p.And(st.pc, p.Not(fits))
	merged := vc.mergeStates([]*State{inPlace, realloc}, "append")
	defers := st.defers
	*st = *merged
	st.defers = defers
	res := Val{K: VSlice,
		Arr: p.Ite(fits, s.Arr, narr),
		Off: p.Ite(fits, s.Off, p.Int(0)),
		Len: newLen,
		Cap: p.Ite(fits, s.Cap, ncap)}
	// membership lemma (sound by the semantics of append): the elements of append(s, x) are those of s and x.
	// inlist is otherwise uninterpreted; its meaning is fixed by the definitional axioms emitted where a contract
	// uses it (eval.go: builtin inlist) and by these instances.
	if memOK {
		rowNew := p.Select(vc.heapGet(st, elemMapKey(et), ArrSort(SInt, ArrSort(SInt, SInt))), res.Arr)
		vc.qSeq++
		a := p.Var(fmt.Sprintf("m?%d", vc.qSeq), SInt)
		lhs := p.App("inlist", SBool, rowNew, res.Off, res.Len, a)
		rhs := p.Or(p.Eq(a, memX), p.App("inlist", SBool, memRowOld, s.Off, s.Len, a))
		vc.assume(st, p.Forall([]*Term{a}, p.Eq(lhs, rhs)))
	}
	return res
}

func (vc *VC) zeroInner(s Sort) *Term {
	if s == SBool {
		return vc.P.ConstArr(SArrIB, vc.P.False())
	}
	return vc.P.ConstArr(SArrII, vc.P.Int(0))
}

func elemComps(et types.Type) []comp {
	switch classify(et) {
	case TKBool:
		return []comp{{"", SBool}}
	case TKSlice:
		return sliceComps
	}
	return []comp{{"", SInt}}
}

// copyRange returns an inner array equal to dst except that [dstOff, dstOff+n) holds src[srcOff, srcOff+n).
// For a literal n of 0 or 1 this is exact without quantifiers; otherwise a fresh array with a quantified definition.
func (vc *VC) copyRange(st *State, dst, dstOff, src, srcOff, n *Term, es Sort, what string) *Term {
	p := vc.P
	if nv, ok := n.IntVal(); ok && nv.IsInt64() && nv.Int64() >= 0 && nv.Int64() <= 4 {
		r := dst
		for j := int64(0); j < nv.Int64(); j++ {
			r = p.Store(r, p.Add(dstOff, p.Int(j)), p.Select(src, p.Add(srcOff, p.Int(j))))
		}
		return r
	}
	r := p.Fresh(what, ArrSort(SInt, es))
	vc.qSeq++
	j := p.Var(fmt.Sprintf("j?%d", vc.qSeq), SInt)
	inR := p.And(p.Le(dstOff, j), p.Lt(j, p.Add(dstOff, n)))
	body := p.Eq(p.Select(r, j), p.Ite(inR, p.Select(src, p.Add(srcOff, p.Sub(j, dstOff))), p.Select(dst, j)))
	vc.assumeGlobal(p.Forall([]*Term{j}, body))
	return r
}

func (vc *VC) appendStructElems(fr *frame, st *State, s, add Val, et types.Type, newLen, fits *Term, pos token.Pos) Val {
	p := vc.P
	// model: result is a fresh or same backing; element structs are copied field by field for a single appended element
	one, isOne := add.Len.IntVal()
	if !isOne || one.Int64() != 1 {
		vc.note("append of several struct elements: contents of the result are unconstrained")
		r := vc.freshSlice("appendstructs")
		vc.assume(st, p.Eq(r.Len, newLen))
		vc.assumeType(st, r, types.NewSlice(et))
		return r
	}
	narr := vc.newRef(st, "append")
	ncap := p.Fresh("appendcap", SInt)
	vc.assume(st, p.And(p.Le(newLen, ncap), p.Le(ncap, p.Int(1<<40))))
	resArr := p.Ite(fits, s.Arr, narr)
	resOff := p.Ite(fits, s.Off, p.Int(0))
	// copy old elements on reallocation: quantified per field map
	sT, _ := structOf(et)
	srcRef := vc.elemRef(st, add.Arr, add.Off, et)
	dstRef := vc.elemRef(st, resArr, p.Add(resOff, s.Len), et)
	elemName := "elem$" + typeKey(et)
	for i := 0; i < sT.NumFields(); i++ {
		ft := sT.Field(i).Type()
		if _, nested := structOf(ft); nested {
			// nested struct fields: copy the appended element's nested fields; moved elements' nested parts stay unconstrained
			vc.copyStructAt(st, vc.subRef(st, srcRef, et, i), vc.subRef(st, dstRef, et, i), ft)
			continue
		}
		keys := map[string]bool{}
		heapKeysOfStore(fieldMapKey(et, i), ft, keys)
		for key := range keys {
			srt := SArrII
			if classify(ft) == TKBool {
				srt = SArrIB
			}
			m := vc.heapGet(st, key, srt)
			nm := p.Fresh(key+"@append", srt)
			vc.qSeq++
			r := p.Var(fmt.Sprintf("r?%d", vc.qSeq), SInt)
			// moved elements: for refs that are elements j<len of the new backing (realloc case) the field equals the old element's
			isNewElem := p.And(p.Not(fits), p.Eq(p.App("par$"+elemName, SInt, r), narr), p.Eq(p.App("refkind", SInt, r), p.Int(int64(vc.E.kindID(elemName)))),
				p.Le(p.Int(0), p.App("idx$"+elemName, SInt, r)), p.Lt(p.App("idx$"+elemName, SInt, r), s.Len),
				p.Eq(r, p.App(elemName, SInt, narr, p.App("idx$"+elemName, SInt, r))))
			oldElem := p.App(elemName, SInt, s.Arr, p.Add(s.Off, p.App("idx$"+elemName, SInt, r)))
			body := p.Eq(p.Select(nm, r),
				p.Ite(p.Eq(r, dstRef), p.Select(m, srcRef),
					p.Ite(isNewElem, p.Select(m, oldElem), p.Select(m, r))))
			vc.assume(st, p.Forall([]*Term{r}, body))
			vc.heapSet(st, key, nm)
			vc.written[key] = true
		}
	}
	return Val{K: VSlice, Arr: resArr, Off: resOff, Len: newLen, Cap: p.Ite(fits, s.Cap, ncap)}
}

func (vc *VC) execCopy(fr *frame, st *State, c *ssa.CallCommon, args []Val, pos token.Pos) Val {
	p := vc.P
	dst, src := args[0], args[1]
	if dst.K != VSlice {
		return vc.freshVal(st, types.Typ[types.Int], "copy")
	}
	et := c.Args[0].Type().Underlying().(*types.Slice).Elem()
	var srcLen *Term
	if src.K == VSlice {
		srcLen = src.Len
	} else {
		srcLen = p.App("strlen", SInt, vc.asInt(src))
		src = vc.bytesOfContent(st, vc.asInt(src), srcLen)
	}
	n := p.Ite(p.Le(dst.Len, srcLen), dst.Len, srcLen)
	if _, isStruct := structOf(et); isStruct {
		vc.note("copy of struct elements: destination unconstrained")
		return scalar(n)
	}
	for _, cp := range elemComps(et) {
		key := elemMapKey(et) + cp.suffix
		srt := ArrSort(SInt, ArrSort(SInt, cp.sort))
		m := vc.heapGet(st, key, srt)
		res := vc.copyRange(st, p.Select(m, dst.Arr), dst.Off, p.Select(m, src.Arr), src.Off, n, cp.sort, "copy")
		vc.heapSet(st, key, p.Store(m, dst.Arr, res))
		vc.written[key] = true
	}
	// a view of a local array: write the new content back to the cell
	if dst.Org != nil && dst.Org.K == ACell && dst.Org.Index == nil {
		k := cellKey{dst.Org.Cell, dst.Org.CellID}
		at := dst.Org.Cell.Type().Underlying().(*types.Pointer).Elem()
		old := vc.asInt(st.cells[k])
		var srcContent *Term
		full := p.False()
		if src.Org != nil || true {
			// content of the source bytes
			m := vc.heapGet(st, "E$uint8", SArrIAI)
			srcContent = p.App("bcontent", SInt, p.Select(m, src.Arr), src.Off, n)
		}
		nc := p.App("arrcopy$"+typeKey(at), SInt, old, dst.Off, srcContent, n)
		if aty, ok := at.Underlying().(*types.Array); ok {
			// when the whole array is overwritten its value is determined by the source bytes
			whole := p.And(p.Eq(n, p.Int(aty.Len())), p.Eq(dst.Off, p.Int(0)))
			nc = p.Ite(whole, p.App("arrofbytes$"+typeKey(at.Underlying()), SInt, srcContent), nc)
		}
		_ = full
		st.cells[k] = scalar(nc)
		// the array view keeps describing the cell: elements of the view are those of the new content
		m := vc.heapGet(st, "E$uint8", SArrIAI)
		_ = m
	}
	return scalar(n)
}

// ---------------------------------------------------------------- calls by contract

type loc struct {
	key  string
	idx  []*Term
	sort Sort // element sort (Int/Bool)
	all  bool
}

func (vc *VC) contractCtx(st, old *State, ct *Contract, fn *ssa.Function, sig *types.Signature, recvT types.Type, args []Val) *evalCtx {
	c := &evalCtx{vc: vc, st: st, old: old, names: map[string]EV{}, bound: map[string]*Term{}, fn: fn}
	c.pkg = vc.E.typesPkg(ct.Pkg)
	if fn != nil && fn == vc.Fn {
		for k, v := range vc.closureVars {
			c.names[k] = v
		}
	}
	var names []string
	var tys []types.Type
	if fn != nil && len(fn.Params) > 0 {
		for _, p := range fn.Params {
			names = append(names, p.Name())
			tys = append(tys, p.Type())
		}
	} else {
		if fn != nil {
			sig = fn.Signature
		}
		if fn == nil {
			names = append(names, "recv")
			tys = append(tys, recvT)
		} else if r := sig.Recv(); r != nil {
			names = append(names, r.Name())
			tys = append(tys, r.Type())
		}
		for i := 0; i < sig.Params().Len(); i++ {
			names = append(names, sig.Params().At(i).Name())
			tys = append(tys, sig.Params().At(i).Type())
		}
	}
	hasRecv := fn == nil || (fn != nil && fn.Signature.Recv() != nil)
	over := []string{}
	if hasRecv {
		over = append(over, ct.RecvName)
	}
	over = append(over, ct.ParamNames...)
	for i := range names {
		if i >= len(args) {
			break
		}
		av := args[i]
		if av.K == VAddr && av.A != nil && av.A.K == AMem && av.A.Ref != nil {
			av = scalar(av.A.Ref) // a pointer to a non-struct heap cell: its reference
		}
		ev := EV{V: av, T: tys[i]}
		if names[i] != "" && names[i] != "_" {
			c.names[names[i]] = ev
		}
		if i < len(over) && over[i] != "" && over[i] != "_" {
			c.names[over[i]] = ev
		}
	}
	return c
}

func (e *Engine) typesPkg(path string) *types.Package {
	for _, p := range e.Prog.AllPackages() {
		if p.Pkg.Path() == path {
			return p.Pkg
		}
	}
	return nil
}

func bindResults(c *evalCtx, res Val, rt types.Type) {
	if tu, ok := rt.(*types.Tuple); ok {
		for i := 0; i < tu.Len(); i++ {
			if i < len(res.Fs) {
				c.names[fmt.Sprintf("result%d", i)] = EV{V: res.Fs[i], T: tu.At(i).Type()}
			}
		}
		if tu.Len() == 1 && len(res.Fs) == 1 {
			c.names["result"] = EV{V: res.Fs[0], T: tu.At(0).Type()}
		}
		return
	}
	c.names["result"] = EV{V: res, T: rt}
	c.names["result0"] = EV{V: res, T: rt}
}

func (vc *VC) callByContract(fr *frame, st *State, ct *Contract, fn *ssa.Function, sig *types.Signature, recvT types.Type, args []Val, rt types.Type, pos token.Pos) Val {
	p := vc.P
	short := ct.Key[strings.LastIndex(ct.Key, "/")+1:]
	n := vc.counter("call:" + fr.prefix + short)
	site := fmt.Sprintf("%s%s#%d", fr.prefix, short, n)
	pre := vc.contractCtx(st, nil, ct, fn, sig, recvT, args)
	for _, cl := range ct.Requires {
		g := pre.bool(pre.eval(cl.Expr), cl.Expr)
		vc.oblige(st, "pre", site+"."+fmt.Sprint(cl.Idx), "precondition of "+short+": "+cl.Text, g, cl.Tags, pos, false)
		vc.assume(st, g)
	}
	for _, cl := range ct.ObjInv {
		vc.assume(st, pre.bool(pre.eval(cl.Expr), cl.Expr))
	}
	old := st.clone()
	// frame
	locs := vc.evalModifies(pre, ct)
	what := "call$" + shortLabel(short) + fmt.Sprint(n)
	vc.havocLocs(st, locs, what)
	// a callee that receives a closure and may write anything may run it: the variables the closure captured
	// (cells of this frame) are arbitrary afterwards
	modsAll := false
	for _, l := range locs {
		if l.all {
			modsAll = true
		}
	}
	if modsAll {
		for _, a := range args {
			if a.Fn == nil {
				continue
			}
			assigned := closureAssigns(a.Fn.Fn)
			for bi, b := range a.Fn.Bindings {
				if !assigned[bi] {
					continue // the closure never assigns this captured variable
				}
				if b.K == VAddr && b.A != nil && b.A.K == ACell && b.A.Cell != nil && len(b.A.Path) == 0 {
					t := b.A.Cell.Type().Underlying().(*types.Pointer).Elem()
					if _, isStruct := structOf(t); isStruct {
						continue
					}
					st.cells[cellKey{b.A.Cell, b.A.CellID}] = vc.freshVal(st, t, b.A.Cell.Comment+"@"+what)
				}
			}
		}
	}
	if len(ct.Preserves) > 0 {
		// whole maps named by the preserves clause keep their pre-call value (fields of fresh objects aside:
		// a preserved map may gain entries for objects the callee allocated, which no old reference reaches)
		for _, cl := range ct.Preserves {
			for _, l := range vc.evalLoc(pre, cl.Expr, ct) {
				if l.all {
					continue
				}
				if oldT, ok := old.heap[l.key]; ok {
					if len(l.idx) == 0 {
						st.heap[l.key] = oldT
					} else if cur, ok2 := st.heap[l.key]; ok2 {
						st.heap[l.key] = vc.P.Store(cur, l.idx[0], vc.P.Select(oldT, l.idx[0]))
					}
				} else if srt, ok := vc.heapSort[l.key]; ok {
					if len(l.idx) == 0 {
						st.heap[l.key] = vc.heapDefault(old, l.key, srt)
					}
				} else if srt, ok := vc.guessKeySort(l.key); ok && len(l.idx) == 0 {
					// never touched so far: materialise it with its pre-call value so that later joins keep it
					st.heap[l.key] = vc.heapDefault(old, l.key, srt)
				} else {
					// never touched before the call and preserved by it: the entry value stays visible
					var keep []string
					for _, u := range st.untouched {
						if u != l.key {
							keep = append(keep, u)
						}
					}
					st.untouched = keep
					st.preserved = appendUnique(st.preserved, l.key)
				}
			}
		}
	}
	for _, a := range args {
		if a.K == VAddr && a.A.K == ACell && !ct.Pure {
			// contracts cannot describe writes through pointers to caller locals: treat as possibly written
			k := cellKey{a.A.Cell, a.A.CellID}
			t := a.A.Cell.Type().Underlying().(*types.Pointer).Elem()
			st.cells[k] = vc.freshVal(st, t, a.A.Cell.Comment+"@"+what)
		}
	}
	{
		// the callee may allocate (pure functions too: results may be fresh objects)
		a := vc.allocCounter(st)
		na := p.Fresh("$A@"+what, SInt)
		vc.assume(st, p.Le(a, na))
		st.heap[allocKey] = na
		vc.allocatesFrame(st, old, ct, what)
	}
	vc.flushTyping(st)
	res := vc.freshVal(st, rt, "ret$"+shortLabel(short))
	post := vc.contractCtx(st, old, ct, fn, sig, recvT, args)
	bindResults(post, res, rt)
	for _, cl := range ct.Ensures {
		vc.assume(st, post.bool(post.eval(cl.Expr), cl.Expr))
	}
	for _, cl := range ct.ObjInv {
		vc.assume(st, post.bool(post.eval(cl.Expr), cl.Expr))
	}
	vc.usedContracts[ct.Key] = true
	return res
}

// allocatesFrame: objects of the listed types may have been created and initialised by the callee:
// their field maps are replaced by maps that agree with the old ones on every previously allocated reference.
func (vc *VC) allocatesFrame(st, old *State, ct *Contract, what string) {
	p := vc.P
	for _, tn := range ct.Allocates {
		t, ok := vc.E.resolveTypeName(ct.Pkg, tn)
		if !ok {
			vc.specError(fmt.Sprintf("%s: unknown type %q in allocates", ct.Key, tn))
			continue
		}
		keys := map[string]bool{}
		if _, isStruct := structOf(t); isStruct {
			heapKeysOfStore("", t, keys)
		} else if sl, isSlice := t.Underlying().(*types.Slice); isSlice {
			heapKeysOfStore(elemMapKey(sl.Elem()), sl.Elem(), keys)
		} else if mt, isMap := t.Underlying().(*types.Map); isMap {
			keys[mapKey(mt)+"#dom"] = true
			keys[mapKey(mt)+"#val"] = true
		} else {
			heapKeysOfStore(memMapKey(t), t, keys)
		}
		ks := make([]string, 0, len(keys))
		for k := range keys {
			ks = append(ks, k)
		}
		sort.Strings(ks)
		for _, k := range ks {
			srt, known := vc.heapSort[k]
			if !known {
				continue // never read in this VC: nothing to relate
			}
			cur := vc.heapGet(st, k, srt)
			nm := p.Fresh(k+"@"+what, srt)
			vc.qSeq++
			r := p.Var(fmt.Sprintf("r?%d", vc.qSeq), SInt)
			vc.assume(st, p.Forall([]*Term{r}, p.Implies(p.Le(r, vc.allocCounter(old)), p.Eq(p.Select(nm, r), p.Select(cur, r)))))
			st.heap[k] = nm
		}
	}
}

func (e *Engine) resolveTypeName(pkgPath, name string) (types.Type, bool) {
	if strings.HasPrefix(name, "[]") {
		et, ok := e.resolveTypeName(pkgPath, name[2:])
		if !ok {
			return nil, false
		}
		return types.NewSlice(et), true
	}
	if !strings.Contains(name, ".") {
		if tn, ok := types.Universe.Lookup(name).(*types.TypeName); ok {
			return tn.Type(), true
		}
	}
	ptr := false
	if strings.HasPrefix(name, "*") {
		ptr = true
		name = name[1:]
	}
	pkg := e.typesPkg(pkgPath)
	if i := strings.LastIndex(name, "."); i >= 0 {
		pn := name[:i]
		name = name[i+1:]
		pkg = nil
		for _, p := range e.Prog.AllPackages() {
			if p.Pkg.Name() == pn || p.Pkg.Path() == pn {
				if p.Pkg.Scope().Lookup(name) != nil {
					pkg = p.Pkg
					break
				}
			}
		}
	}
	var tn *types.TypeName
	ok := false
	if pkg != nil {
		tn, ok = pkg.Scope().Lookup(name).(*types.TypeName)
	}
	if !ok {
		// an unqualified name that is unique among the repository's packages
		var found []*types.TypeName
		for _, p := range e.Prog.AllPackages() {
			if e.inRepo(p.Pkg) {
				if t, isT := p.Pkg.Scope().Lookup(name).(*types.TypeName); isT {
					found = append(found, t)
				}
			}
		}
		if len(found) != 1 {
			return nil, false
		}
		tn = found[0]
	}
	if ptr {
		return types.NewPointer(tn.Type()), true
	}
	return tn.Type(), true
}

// evalModifies evaluates the modifies clause of a contract to heap locations (in the state of c).
func (vc *VC) evalModifies(c *evalCtx, ct *Contract) []loc {
	var out []loc
	for _, cl := range ct.Modifies {
		out = append(out, vc.evalLoc(c, cl.Expr, ct)...)
	}
	return out
}

func (vc *VC) evalLoc(c *evalCtx, e *Expr, ct *Contract) []loc {
	var out []loc
	addKeys := func(base string, t types.Type, idx []*Term) {
		keys := map[string]bool{}
		heapKeysOfStore(base, t, keys)
		ks := make([]string, 0, len(keys))
		for k := range keys {
			ks = append(ks, k)
		}
		sort.Strings(ks)
		for _, k := range ks {
			out = append(out, loc{key: k, idx: idx})
		}
	}
	switch e.Kind {
	case "ident":
		if e.Name == "everything" {
			return []loc{{all: true}}
		}
		if _, ok := vc.E.DB.Ghosts[e.Name]; ok {
			return []loc{{key: "ghost$" + e.Name}}
		}
		// a type name: all fields of all objects of that type
		if t, ok := vc.E.resolveTypeName(ct.Pkg, e.Name); ok {
			if _, isStruct := structOf(t); isStruct {
				addKeys("", t, nil)
				return out
			}
		}
	case "field":
		// Type.field : whole map ; x.field : one object
		if e.Args[0].Kind == "ident" || e.Args[0].Kind == "field" {
			if t, ok := c.resolveType(e.Args[0]); ok {
				if s, isStruct := structOf(t); isStruct {
					for i := 0; i < s.NumFields(); i++ {
						if s.Field(i).Name() == e.Name || e.Name == "*" {
							addKeys(fieldMapKey(t, i), s.Field(i).Type(), nil)
						}
					}
					if len(out) > 0 {
						return out
					}
				}
			}
		}
		base := c.eval(e.Args[0])
		stT, ok := derefStruct(base.T)
		if !ok {
			vc.specError(fmt.Sprintf("%s: modifies %s: base is not a struct", ct.Key, e))
			return nil
		}
		ref := c.int(base, e)
		s, _ := structOf(stT)
		if e.Name == "*" {
			for i := 0; i < s.NumFields(); i++ {
				ft := s.Field(i).Type()
				if _, nested := structOf(ft); nested {
					sub := vc.subRef(c.st, ref, stT, i)
					ns, _ := structOf(ft)
					for j := 0; j < ns.NumFields(); j++ {
						addKeys(fieldMapKey(ft, j), ns.Field(j).Type(), []*Term{sub})
					}
					continue
				}
				addKeys(fieldMapKey(stT, i), ft, []*Term{ref})
			}
			return out
		}
		obj, index, _ := types.LookupFieldOrMethod(stT, true, c.pkgOfType(stT), e.Name)
		if _, isVar := obj.(*types.Var); !isVar || len(index) != 1 {
			vc.specError(fmt.Sprintf("%s: modifies %s: no direct field", ct.Key, e))
			return nil
		}
		ft := s.Field(index[0]).Type()
		if _, nested := structOf(ft); nested {
			sub := vc.subRef(c.st, ref, stT, index[0])
			ns, _ := structOf(ft)
			for j := 0; j < ns.NumFields(); j++ {
				addKeys(fieldMapKey(ft, j), ns.Field(j).Type(), []*Term{sub})
			}
			return out
		}
		addKeys(fieldMapKey(stT, index[0]), ft, []*Term{ref})
		return out
	case "call":
		switch e.Name {
		case "u":
			a := c.eval(e.Args[0])
			return []loc{{key: memMapKey(uint256Type(vc.E)), idx: []*Term{c.int(a, e)}}}
		case "elems":
			a := c.eval(e.Args[0])
			if a.V.K == VSlice && a.T != nil {
				et := a.T.Underlying().(*types.Slice).Elem()
				if _, isStruct := structOf(et); isStruct {
					addKeys("", et, nil) // element structs: whole field maps (coarse)
					return out
				}
				addKeys(elemMapKey(et), et, []*Term{a.V.Arr})
				return out
			}
		case "mapof":
			a := c.eval(e.Args[0])
			if a.T != nil {
				if mt, ok := a.T.Underlying().(*types.Map); ok {
					m := c.int(a, e)
					noteMapType(mt)
					return []loc{{key: mapKey(mt) + "#dom", idx: []*Term{m}, sort: SBool}, {key: mapKey(mt) + "#val", idx: []*Term{m}}}
				}
			}
		case "cell":
			// cell(x): the heap cell of a captured variable x of a closure under contract
			if len(e.Args) == 1 && e.Args[0].Kind == "ident" {
				if ev, ok := c.names[e.Args[0].Name]; ok && ev.cell != nil {
					addKeys(memMapKey(ev.T), ev.T, []*Term{ev.cell})
					return out
				}
			}
		case "deref":
			a := c.eval(e.Args[0])
			if a.T != nil {
				if pt, ok := a.T.Underlying().(*types.Pointer); ok {
					addKeys(memMapKey(pt.Elem()), pt.Elem(), []*Term{c.int(a, e)})
					return out
				}
			}
		case "allof":
			// allof(T): every field of every object of type T
			if t, ok := c.resolveType(e.Args[0]); ok {
				addKeys("", t, nil)
				return out
			}
		case "allmaps", "allelems":
			// allmaps(T.f) / allelems(T.f): every map object (resp. every backing array) of the type of field f
			if len(e.Args) == 1 && e.Args[0].Kind == "field" {
				if t, ok := c.resolveType(e.Args[0].Args[0]); ok {
					if s, isStruct := structOf(t); isStruct {
						for i := 0; i < s.NumFields(); i++ {
							if s.Field(i).Name() != e.Args[0].Name {
								continue
							}
							switch ft := s.Field(i).Type().Underlying().(type) {
							case *types.Map:
								noteMapType(ft)
								return []loc{{key: mapKey(ft) + "#dom"}, {key: mapKey(ft) + "#val"}}
							case *types.Slice:
								addKeys(elemMapKey(ft.Elem()), ft.Elem(), nil)
								return out
							}
						}
					}
				}
			}
		case "mem":
			// mem(T): the pointees of all pointers to the non-struct type T (e.g. mem(uint256.Int))
			if t, ok := c.resolveType(e.Args[0]); ok {
				addKeys(memMapKey(t), t, nil)
				return out
			}
		}
	}
	vc.specError(fmt.Sprintf("%s: cannot interpret modifies target %s", ct.Key, e))
	return nil
}

func (vc *VC) havocLocs(st *State, locs []loc, what string) {
	p := vc.P
	for _, l := range locs {
		if l.all {
			vc.havocAllHeap(st, what)
			continue
		}
		srt, known := vc.heapSort[l.key]
		if !known {
			if s, ok := vc.guessKeySort(l.key); ok {
				vc.heapInit(l.key, &s)
				srt, known = s, true
			}
		}
		if !known {
			// a map never read so far whose sort cannot be derived: the whole map counts as havocked
			st.untouched = appendUnique(st.untouched, l.key)
			continue
		}
		cur := vc.heapGet(st, l.key, srt)
		switch len(l.idx) {
		case 0:
			f := p.Fresh(l.key+"@"+what, srt)
			st.heap[l.key] = f
			vc.pendingTyping = append(vc.pendingTyping, pendingType{l.key, f})
		case 1:
			f := p.Fresh(l.key+"@"+what, srt.elemSort())
			st.heap[l.key] = p.Store(cur, l.idx[0], f)
			vc.pendingTyping = append(vc.pendingTyping, pendingType{l.key, f})
		}
	}
}

type pendingType struct {
	key  string
	term *Term
}

// flushTyping assumes, for every reference-holding map that was just havocked, that the references it
// now holds are allocated in the current state (heap typing after a call or a loop havoc).
func (vc *VC) flushTyping(st *State) {
	p := vc.P
	a := vc.allocCounter(st)
	for _, pt := range vc.pendingTyping {
		if !isRefKey(pt.key) {
			continue
		}
		t := pt.term
		var vars []*Term
		for strings.HasPrefix(string(t.S), "(Array") {
			vc.qSeq++
			v := p.Var(fmt.Sprintf("h?%d", vc.qSeq), SInt)
			vars = append(vars, v)
			t = p.Select(t, v)
		}
		if t.S != SInt {
			continue
		}
		vc.assume(st, p.Forall(vars, p.Le(t, a)))
	}
	vc.pendingTyping = nil
}

// funcFieldKey recognises a call through a function-typed struct field (x.f(...)) and returns the
// contract key "<pkg>.(*T).f" together with the object holding the field.
func (vc *VC) funcFieldKey(fr *frame, st *State, v ssa.Value) (string, Val, types.Type, bool) {
	u, ok := v.(*ssa.UnOp)
	if !ok || u.Op != token.MUL {
		return "", Val{}, nil, false
	}
	fa, ok := u.X.(*ssa.FieldAddr)
	if !ok {
		return "", Val{}, nil, false
	}
	pt := fa.X.Type().Underlying().(*types.Pointer)
	s, ok := structOf(pt.Elem())
	if !ok {
		return "", Val{}, nil, false
	}
	n, ok := pt.Elem().(*types.Named)
	if !ok || n.Obj().Pkg() == nil {
		return "", Val{}, nil, false
	}
	key := n.Obj().Pkg().Path() + ".(*" + n.Origin().Obj().Name() + ")." + s.Field(fa.Field).Name()
	return key, vc.operand(fr, st, fa.X), fa.X.Type(), true
}

// guessKeySort derives the sort of a heap map from its key name (leaf Int unless known Bool).
func (vc *VC) guessKeySort(key string) (Sort, bool) {
	if strings.HasPrefix(key, "ghost$") {
		s, ok := vc.E.DB.Ghosts[strings.TrimPrefix(key, "ghost$")]
		return s, ok
	}
	leaf := SInt
	boolKeyMu.Lock()
	b, ok := boolKeys[key]
	boolKeyMu.Unlock()
	if ok && b {
		leaf = SBool
	}
	switch {
	case strings.HasSuffix(key, "#dom") && strings.HasPrefix(key, "Map$"):
		return SArrIAB, true
	case strings.HasPrefix(key, "Map$"), strings.HasPrefix(key, "E$"):
		return ArrSort(SInt, ArrSort(SInt, leaf)), true
	case strings.HasPrefix(key, "F$"), strings.HasPrefix(key, "M$"):
		return ArrSort(SInt, leaf), true
	case strings.HasPrefix(key, "G$"):
		return leaf, true
	}
	return "", false
}

// roleKey derives the role contract key for an interface method called on a value loaded from a field.
func roleKey(key string, recv ssa.Value) string {
	f := roleField(recv)
	if f == "" {
		return ""
	}
	return roleKeyField(key, f)
}

func roleKeyField(key, field string) string {
	i := strings.LastIndex(key, ").")
	if i < 0 {
		return ""
	}
	return key[:i] + "_" + field + key[i:]
}

// roleField: the name of the struct field an interface value was loaded from ("" if it was not).
func roleField(recv ssa.Value) string {
	u, ok := recv.(*ssa.UnOp)
	if !ok || u.Op != token.MUL {
		return ""
	}
	if al, isAlloc := u.X.(*ssa.Alloc); isAlloc && al.Comment != "" {
		// a named local variable holding an interface value: its name is the role ("(Iface_local).Method")
		return al.Comment
	}
	fa, ok := u.X.(*ssa.FieldAddr)
	if !ok {
		return ""
	}
	s, ok := structOf(fa.X.Type().Underlying().(*types.Pointer).Elem())
	if !ok {
		return ""
	}
	return s.Field(fa.Field).Name()
}

// callAlternatives executes a call through a function value that is one of several known closures:
// a case split, each alternative inlined under its selecting condition, then the states are joined.
func (vc *VC) callAlternatives(fr *frame, st *State, alts []FuncAlt, args []Val, rt types.Type, pos token.Pos) Val {
	p := vc.P
	var sts []*State
	var results []Val
	var conds []*Term
	for _, a := range alts {
		s := st.clone()
		s.pc = p.And(st.pc, a.Cond)
		if s.pc.IsFalse() {
			continue
		}
		callee := a.F.Fn
		if o := callee.Origin(); o != nil && len(callee.Blocks) == 0 {
			callee = o
		}
		vc.pendingRoles = a.F.Roles
		r := vc.inlineCall(fr, s, callee, args, a.F.Bindings, rt, pos)
		if s.pc.IsFalse() {
			continue
		}
		sts = append(sts, s)
		results = append(results, r)
		conds = append(conds, s.pc)
	}
	if len(sts) == 0 {
		st.pc = p.False()
		return vc.zeroValOrTuple(st, rt)
	}
	merged := vc.mergeStates(sts, "funcvalue call")
	defers := st.defers
	*st = *merged
	st.defers = defers
	return vc.mergeVal(conds, results, "funcvalue result")
}

// copyStructAt copies the struct of type t living at src to dst (field by field, nested structs included).
func (vc *VC) copyStructAt(st *State, src, dst *Term, t types.Type) {
	vc.storeStruct(st, dst, t, vc.loadStruct(st, src, t))
}

// closureAssigns reports, per free variable of a closure, whether its body (or a closure nested in it) stores to it.
func closureAssigns(fn *ssa.Function) map[int]bool {
	out := map[int]bool{}
	if fn == nil {
		return out
	}
	idx := map[*ssa.FreeVar]int{}
	for i, fv := range fn.FreeVars {
		idx[fv] = i
	}
	var scan func(f *ssa.Function, m map[*ssa.FreeVar]int)
	scan = func(f *ssa.Function, m map[*ssa.FreeVar]int) {
		for _, b := range f.Blocks {
			for _, ins := range b.Instrs {
				switch x := ins.(type) {
				case *ssa.Store:
					if fv, ok := x.Addr.(*ssa.FreeVar); ok {
						if i, ok := m[fv]; ok {
							out[i] = true
						}
					}
				case *ssa.MakeClosure:
					// a nested closure capturing our free variable may assign it
					if nf, ok := x.Fn.(*ssa.Function); ok {
						nm := map[*ssa.FreeVar]int{}
						for k, bv := range x.Bindings {
							if fv, ok := bv.(*ssa.FreeVar); ok {
								if i, ok := m[fv]; ok && k < len(nf.FreeVars) {
									nm[nf.FreeVars[k]] = i
								}
							}
						}
						if len(nm) > 0 {
							scan(nf, nm)
						}
					}
				case *ssa.Call:
					// the address of a captured variable passed to a call: assume it may be written
					for _, a := range x.Call.Args {
						if fv, ok := a.(*ssa.FreeVar); ok {
							if i, ok := m[fv]; ok {
								out[i] = true
							}
						}
					}
				}
			}
		}
	}
	scan(fn, idx)
	return out
}
