#!/bin/bash
# Builds the verification tools from the files in /verif only (offline).
set -e
cd "$(dirname "$0")"
export GOFLAGS=-mod=mod GOPROXY=off GOSUMDB=off GOTOOLCHAIN=local
mkdir -p bin evidence
go build -o bin/vcheck ./cmd/vcheck
go build -o bin/govc ./cmd/govc
echo "setup ok"
