package stake_test

// Replay template for obligations of StakeCtrler.BeginBlock (injected with `go test -overlay`; never
// written into the repository). The witness is the one the failed obligation describes:
// BeginBlock at height 4 must reward from the delegatee state committed at height max(h-4,1) = 1.

import (
	"os"
	"path/filepath"
	"testing"

	"github.com/holiman/uint256"
	rigocfg "github.com/rigochain/rigo-go/cmd/config"
	"github.com/rigochain/rigo-go/ctrlers/stake"
	"github.com/rigochain/rigo-go/ctrlers/stake/mocks"
	ctrlertypes "github.com/rigochain/rigo-go/ctrlers/types"
	"github.com/rigochain/rigo-go/libs/web3"
	rigotypes "github.com/rigochain/rigo-go/types"
	"github.com/rigochain/rigo-go/types/crypto"
	abcitypes "github.com/tendermint/tendermint/abci/types"
	tmlog "github.com/tendermint/tendermint/libs/log"
	tmtypes "github.com/tendermint/tendermint/proto/tendermint/types"
)

func zzStakeTx(t *testing.T, gov ctrlertypes.IGovHandler, acct *mocks.AcctHandlerMock, from, to *web3.Wallet, power, height int64) *ctrlertypes.TrxContext {
	tx := web3.NewTrxStaking(from.Address(), to.Address(), 0, 0, uint256.NewInt(0), ctrlertypes.PowerToAmount(power))
	bz, err := tx.Encode()
	if err != nil {
		t.Fatal(err)
	}
	return &ctrlertypes.TrxContext{Exec: true, Tx: tx, TxHash: crypto.DefaultHash(bz), Height: height,
		SenderPubKey: from.GetPubKey(), Sender: from.GetAccount(), Receiver: to.GetAccount(),
		GovHandler: gov, AcctHandler: acct}
}

func TestReplay_BeginBlockRewardHeightAtBlock4(t *testing.T) {
	dir := filepath.Join(os.TempDir(), "zz-replay-stake-f8")
	os.RemoveAll(dir)
	defer os.RemoveAll(dir)
	cfg := rigocfg.DefaultConfig()
	cfg.DBPath = dir
	gov := ctrlertypes.Test6GovParams_NoStakeLimiter()
	ctrler, xerr := stake.NewStakeCtrler(cfg, gov, tmlog.NewNopLogger())
	if xerr != nil {
		t.Fatal(xerr)
	}
	acct := mocks.NewAccountHandlerMock(4)
	acct.Iterate(func(idx int, w *web3.Wallet) bool {
		w.GetAccount().SetBalance(rigotypes.ToFons(1_000_000_000))
		return true
	})
	v, d := acct.GetWallet(0), acct.GetWallet(1)
	p1 := ctrlertypes.AmountToPower(gov.MinValidatorStake())
	p2 := int64(100)
	block := func(h int64, votes []abcitypes.VoteInfo, txs ...*ctrlertypes.TrxContext) {
		req := abcitypes.RequestBeginBlock{Header: tmtypes.Header{Height: h}, LastCommitInfo: abcitypes.LastCommitInfo{Votes: votes}}
		bctx := ctrlertypes.NewBlockContext(req, gov, acct, nil)
		if _, xerr := ctrler.BeginBlock(bctx); xerr != nil {
			t.Fatalf("BeginBlock(%d): %v", h, xerr)
		}
		for _, tx := range txs {
			if xerr := ctrler.ExecuteTrx(tx); xerr != nil {
				t.Fatalf("ExecuteTrx at %d: %v", h, xerr)
			}
		}
		if _, xerr := ctrler.EndBlock(bctx); xerr != nil {
			t.Fatalf("EndBlock(%d): %v", h, xerr)
		}
		if _, _, xerr := ctrler.Commit(); xerr != nil {
			t.Fatalf("Commit(%d): %v", h, xerr)
		}
	}
	block(1, nil, zzStakeTx(t, gov, acct, v, v, p1, 1)) // V bonds p1 to itself: committed at height 1
	block(2, nil, zzStakeTx(t, gov, acct, d, v, p2, 2)) // D delegates p2 to V: committed at height 2
	block(3, nil)
	// block 4: consensus derived V's voting power from the state committed at height 1 (p1)
	votes := []abcitypes.VoteInfo{{Validator: abcitypes.Validator{Address: v.Address(), Power: p1}, SignedLastBlock: true}}
	req := abcitypes.RequestBeginBlock{Header: tmtypes.Header{Height: 4}, LastCommitInfo: abcitypes.LastCommitInfo{Votes: votes}}
	if _, xerr := ctrler.BeginBlock(ctrlertypes.NewBlockContext(req, gov, acct, nil)); xerr != nil {
		t.Fatalf("BeginBlock(4): %v", xerr)
	}
	want := new(uint256.Int).Mul(uint256.NewInt(uint64(p1)), gov.RewardPerPower())
	got := uint256.NewInt(0)
	if r := ctrler.RewardOf(v.Address()); r != nil {
		got = r.GetCumulated()
	}
	if got.Cmp(want) != 0 {
		t.Fatalf("REPLAY-VIOLATION: at height 4 the validator that signed block 3 with the power recorded at height 1 (%d) earned %s, want %s (power x reward-per-power): BeginBlock read the delegatee ledger at height 0 (= latest) instead of max(4-4,1) = 1", p1, got.Dec(), want.Dec())
	}
	if r := ctrler.RewardOf(d.Address()); r != nil && r.GetCumulated().Sign() != 0 {
		t.Fatalf("REPLAY-VIOLATION: the delegator whose stake was bonded at height 2 earned %s at height 4", r.GetCumulated().Dec())
	}
}

// F6 (C06): StakeCtrler.ValidateTrx runs the stake limiter on the mempool-check path too, and
// StakeLimiter.CheckLimit mutates the limiter (powObj.Power, updatedPower). A CheckTx served between BeginBlock
// and the DeliverTx of the same transaction changes the DeliverTx verdict.
func zzThreeValidators(t *testing.T, dir string) (*stake.StakeCtrler, ctrlertypes.IGovHandler, *mocks.AcctHandlerMock, func(h int64, txs ...*ctrlertypes.TrxContext) *ctrlertypes.BlockContext) {
	os.RemoveAll(dir)
	cfg := rigocfg.DefaultConfig()
	cfg.DBPath = dir
	gov := ctrlertypes.Test6GovParams_NoStakeLimiter()
	ctrler, xerr := stake.NewStakeCtrler(cfg, gov, tmlog.NewNopLogger())
	if xerr != nil {
		t.Fatal(xerr)
	}
	acct := mocks.NewAccountHandlerMock(5)
	acct.Iterate(func(idx int, w *web3.Wallet) bool {
		w.GetAccount().SetBalance(rigotypes.ToFons(1_000_000_000))
		return true
	})
	begin := func(h int64, txs ...*ctrlertypes.TrxContext) *ctrlertypes.BlockContext {
		req := abcitypes.RequestBeginBlock{Header: tmtypes.Header{Height: h}}
		bctx := ctrlertypes.NewBlockContext(req, gov, acct, nil)
		if _, xerr := ctrler.BeginBlock(bctx); xerr != nil {
			t.Fatalf("BeginBlock(%d): %v", h, xerr)
		}
		for _, tx := range txs {
			if xerr := ctrler.ExecuteTrx(tx); xerr != nil {
				t.Fatalf("ExecuteTrx at %d: %v", h, xerr)
			}
		}
		return bctx
	}
	end := func(bctx *ctrlertypes.BlockContext) {
		if _, xerr := ctrler.EndBlock(bctx); xerr != nil {
			t.Fatal(xerr)
		}
		if _, _, xerr := ctrler.Commit(); xerr != nil {
			t.Fatal(xerr)
		}
	}
	p := ctrlertypes.AmountToPower(gov.MinValidatorStake())
	end(begin(1, zzStakeTx(t, gov, acct, acct.GetWallet(0), acct.GetWallet(0), p, 1), zzStakeTx(t, gov, acct, acct.GetWallet(1), acct.GetWallet(1), p, 1), zzStakeTx(t, gov, acct, acct.GetWallet(2), acct.GetWallet(2), p, 1)))
	end(begin(2)) // the three validators are announced at the end of block 2: the limiter is active from block 3
	return ctrler, gov, acct, begin
}

func TestReplay_CheckTxChangesDeliverVerdict(t *testing.T) {
	dirA := filepath.Join(os.TempDir(), "zz-replay-stake-f6a")
	dirB := filepath.Join(os.TempDir(), "zz-replay-stake-f6b")
	defer os.RemoveAll(dirA)
	defer os.RemoveAll(dirB)
	// node A: block 3 delivers a delegation of 1 to validator 0
	ctrlA, govA, acctA, beginA := zzThreeValidators(t, dirA)
	beginA(3)
	txA := zzStakeTx(t, govA, acctA, acctA.GetWallet(3), acctA.GetWallet(0), 1, 3)
	verdictA := ctrlA.ValidateTrx(txA)
	// node B: the same, but the mempool check of the same transaction is served first (Exec=false)
	ctrlB, govB, acctB, beginB := zzThreeValidators(t, dirB)
	beginB(3)
	chk := zzStakeTx(t, govB, acctB, acctB.GetWallet(3), acctB.GetWallet(0), 1, 3)
	chk.Exec = false
	_ = ctrlB.ValidateTrx(chk)
	txB := zzStakeTx(t, govB, acctB, acctB.GetWallet(3), acctB.GetWallet(0), 1, 3)
	verdictB := ctrlB.ValidateTrx(txB)
	if (verdictA == nil) != (verdictB == nil) {
		t.Fatalf("REPLAY-VIOLATION: the consensus-path validation of the same staking transaction in the same block is %v on a node that served no CheckTx and %v on a node that served a CheckTx of it first: the mempool check mutated the stake limiter", verdictA, verdictB)
	}
}
