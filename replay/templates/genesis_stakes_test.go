package node

// Replay template for the genesis-stake obligation (C02/C12/C11): every stake created at genesis must have its
// own key in the unbonding ledger (the staking transaction hash). Drives a real RigoApp on a temporary
// directory with two genesis validators that both release their genesis stake.

import (
	"testing"
	"time"

	"github.com/holiman/uint256"
	cfg "github.com/rigochain/rigo-go/cmd/config"
	rctypes "github.com/rigochain/rigo-go/ctrlers/types"
	"github.com/rigochain/rigo-go/genesis"
	"github.com/rigochain/rigo-go/libs/web3"
	abcitypes "github.com/tendermint/tendermint/abci/types"
	tmjson "github.com/tendermint/tendermint/libs/json"
	"github.com/tendermint/tendermint/libs/log"
	tmproto "github.com/tendermint/tendermint/proto/tendermint/types"
)

func TestReplay_GenesisStakesHaveTheirOwnKeys(t *testing.T) {
	const chainID = "zzreplay-genesis"
	c := cfg.DefaultConfig()
	c.SetRoot(t.TempDir())
	app := NewRigoApp(c, log.NewNopLogger())
	if err := app.Start(); err != nil {
		t.Fatal(err)
	}
	defer func() { _ = app.Stop() }()

	w1, w2 := web3.NewWallet(nil), web3.NewWallet(nil)
	gp := rctypes.Test1GovParams()
	bal := uint256.MustFromDecimal("1000000000000000000000")
	appState := genesis.GenesisAppState{
		AssetHolders: []*genesis.GenesisAssetHolder{{Address: w1.Address(), Balance: bal.Clone()}, {Address: w2.Address(), Balance: bal.Clone()}},
		GovParams:    gp,
	}
	bz, err := tmjson.Marshal(appState)
	if err != nil {
		t.Fatal(err)
	}
	_ = app.Info(abcitypes.RequestInfo{})
	_ = app.InitChain(abcitypes.RequestInitChain{
		ChainId:       chainID,
		AppStateBytes: bz,
		Validators: []abcitypes.ValidatorUpdate{
			abcitypes.UpdateValidator(w1.GetPubKey(), 7, "secp256k1"),
			abcitypes.UpdateValidator(w2.GetPubKey(), 5, "secp256k1"),
		},
	})
	begin := func(h int64) {
		_ = app.BeginBlock(abcitypes.RequestBeginBlock{Header: tmproto.Header{ChainID: chainID, Height: h, Time: time.Now(), ProposerAddress: w1.Address()}})
	}
	end := func(h int64) {
		_ = app.EndBlock(abcitypes.RequestEndBlock{Height: h})
		_ = app.Commit()
	}
	begin(1)
	end(1)

	// the genesis stakes as the chain reports them
	bonded := map[string]int64{}
	for _, w := range []*web3.Wallet{w1, w2} {
		d := app.stakeCtrler.Delegatee(w.Address())
		var xerr error
		if xerr != nil || d == nil || len(d.Stakes) != 1 {
			t.Fatalf("the scenario needs one genesis stake per validator: %v %v", d, xerr)
		}
		bonded[string(w.Address())] = d.Stakes[0].Power
	}

	// block 2: both validators release their genesis stake (each names the stake by the hash the chain gave it)
	begin(2)
	for _, w := range []*web3.Wallet{w1, w2} {
		d := app.stakeCtrler.Delegatee(w.Address())
		tx := web3.NewTrxUnstaking(w.Address(), w.Address(), 0, gp.MinTrxGas(), gp.GasPrice(), d.Stakes[0].TxHash)
		if _, _, err := w.SignTrxRLP(tx, chainID); err != nil {
			t.Fatal(err)
		}
		txbz, xerr := tx.Encode()
		if xerr != nil {
			t.Fatal(xerr)
		}
		resp := app.DeliverTx(abcitypes.RequestDeliverTx{Tx: txbz})
		if resp.Code != 0 {
			t.Fatalf("the scenario needs both releases to succeed: %v", resp.Log)
		}
	}
	end(2)

	// both stakes must now be unbonding, each with its full power, each owned by its creator
	frozen := app.stakeCtrler.ReadFrozenStakes()
	sum := int64(0)
	owners := map[string]int64{}
	for _, s := range frozen {
		sum += s.Power
		owners[string(s.From)] += s.Power
	}
	if len(frozen) != 2 || sum != 12 || owners[string(w1.Address())] != 7 || owners[string(w2.Address())] != 5 {
		t.Fatalf("REPLAY-VIOLATION: two genesis validators released stakes of power 7 and 5; the unbonding ledger holds %d stake(s) with total power %d (expected 2 stakes, power 12): the stakes share one ledger key (%x) and one overwrote the other, so its value is never refunded", len(frozen), sum, func() []byte {
			if len(frozen) > 0 {
				return frozen[0].TxHash
			}
			return nil
		}())
	}
}
