package ledger

// Replay fixture for the ledger overlay obligations (C18): drives a real FinalityLedger in a
// temporary directory. Injected into package ledger with `go test -overlay`; never written into /repo.

import (
	"os"
	"testing"

	"github.com/rigochain/rigo-go/types/xerrors"
)

type zzItem struct {
	key LedgerKey
	val []byte
}

func (i *zzItem) Key() LedgerKey { return i.key }
func (i *zzItem) Encode() ([]byte, xerrors.XError) {
	return append(append([]byte{}, i.key[:]...), i.val...), nil
}
func (i *zzItem) Decode(bz []byte) xerrors.XError {
	copy(i.key[:], bz[:32])
	i.val = append([]byte{}, bz[32:]...)
	return nil
}

func zzNewLedger(t *testing.T) *FinalityLedger[*zzItem] {
	dir, err := os.MkdirTemp("", "zzreplay")
	if err != nil {
		t.Fatal(err)
	}
	t.Cleanup(func() { os.RemoveAll(dir) })
	l, xerr := NewFinalityLedger[*zzItem]("zz", dir, 16, func() *zzItem { return &zzItem{} })
	if xerr != nil {
		t.Fatal(xerr)
	}
	t.Cleanup(func() { _ = l.Close() })
	return l
}

func zzKey(b byte) LedgerKey { var k LedgerKey; k[0] = b; return k }

// obligation ledger.(*FinalityLedger).getFinality#post.3: a key with a pending write is read back
// through its overlay even if it is also marked removed (delete, then re-create, then read).
func TestReplay_FinalityRecreateAfterDelete(t *testing.T) {
	l := zzNewLedger(t)
	k := zzKey(7)
	_ = l.SetFinality(&zzItem{key: k, val: []byte("v1")})
	if _, _, xerr := l.Commit(); xerr != nil {
		t.Fatal(xerr)
	}
	if _, xerr := l.DelFinality(k); xerr != nil {
		t.Fatal("DelFinality:", xerr)
	}
	it2 := &zzItem{key: k, val: []byte("v2")}
	_ = l.SetFinality(it2)
	got, xerr := l.GetFinality(k)
	if xerr != nil || got != it2 {
		t.Fatalf("clause violated: pending re-created item not visible: got=%v err=%v", got, xerr)
	}
}

// obligation ledger.(*SimpleLedger).get#post.3: the same through the mempool overlay.
func TestReplay_PoolRecreateAfterDelete(t *testing.T) {
	l := zzNewLedger(t)
	k := zzKey(9)
	_ = l.SetFinality(&zzItem{key: k, val: []byte("v1")})
	if _, _, xerr := l.Commit(); xerr != nil {
		t.Fatal(xerr)
	}
	if _, xerr := l.Del(k); xerr != nil {
		t.Fatal("Del:", xerr)
	}
	it2 := &zzItem{key: k, val: []byte("v2")}
	_ = l.Set(it2)
	got, xerr := l.Get(k)
	if xerr != nil || got != it2 {
		t.Fatalf("clause violated: pending re-created item not visible: got=%v err=%v", got, xerr)
	}
}
