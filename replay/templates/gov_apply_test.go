package node

// Replay template for the governance application obligation (C15/C09): an option that passed ValidateTrx and
// won the vote must be applicable at its applying height. Drives the real GovCtrler (no mocks of it); the
// staking controller is replaced by a one-validator stub, which is all GovCtrler asks of it.

import (
	"os"
	"path/filepath"
	"testing"

	"github.com/holiman/uint256"
	rigocfg "github.com/rigochain/rigo-go/cmd/config"
	"github.com/rigochain/rigo-go/ctrlers/gov"
	"github.com/rigochain/rigo-go/ctrlers/gov/proposal"
	ctrlertypes "github.com/rigochain/rigo-go/ctrlers/types"
	"github.com/rigochain/rigo-go/genesis"
	"github.com/rigochain/rigo-go/libs/web3"
	rtypes "github.com/rigochain/rigo-go/types"
	"github.com/rigochain/rigo-go/types/crypto"
	abcitypes "github.com/tendermint/tendermint/abci/types"
	tmlog "github.com/tendermint/tendermint/libs/log"
	tmtypes "github.com/tendermint/tendermint/proto/tendermint/types"
)

type zzOneValidator struct{ addr rtypes.Address }

func (s *zzOneValidator) Validators() ([]*abcitypes.Validator, int64) {
	return []*abcitypes.Validator{{Address: s.addr, Power: 10}}, 10
}
func (s *zzOneValidator) IsValidator(a rtypes.Address) bool      { return a.Compare(s.addr) == 0 }
func (s *zzOneValidator) TotalPowerOf(a rtypes.Address) int64     { return 10 }
func (s *zzOneValidator) SelfPowerOf(a rtypes.Address) int64      { return 10 }
func (s *zzOneValidator) DelegatedPowerOf(a rtypes.Address) int64 { return 0 }

func TestReplay_GovOptionAppliedAsValidated(t *testing.T) {
	dir := filepath.Join(os.TempDir(), "zz-replay-gov-f9")
	os.RemoveAll(dir)
	defer os.RemoveAll(dir)
	cfg := rigocfg.DefaultConfig()
	cfg.DBPath = dir
	gc, err := gov.NewGovCtrler(cfg, tmlog.NewNopLogger())
	if err != nil {
		t.Fatal(err)
	}
	if xerr := gc.InitLedger(&genesis.GenesisAppState{GovParams: ctrlertypes.Test1GovParams()}); xerr != nil {
		t.Fatal(xerr)
	}
	w := web3.NewWallet(nil)
	sh := &zzOneValidator{addr: w.Address()}
	block := func(h int64, txs ...*ctrlertypes.Trx) {
		req := abcitypes.RequestBeginBlock{Header: tmtypes.Header{Height: h}}
		bctx := ctrlertypes.NewBlockContext(req, gc, nil, sh)
		if _, xerr := gc.BeginBlock(bctx); xerr != nil {
			t.Fatalf("BeginBlock(%d): %v", h, xerr)
		}
		for _, tx := range txs {
			bz, _ := tx.Encode()
			ctx := &ctrlertypes.TrxContext{Exec: true, Tx: tx, TxHash: crypto.DefaultHash(bz), Height: h, Sender: w.GetAccount(), Receiver: w.GetAccount(), GovHandler: gc, StakeHandler: sh}
			if xerr := gc.ValidateTrx(ctx); xerr != nil {
				t.Fatalf("the scenario needs this transaction to be valid at height %d: %v", h, xerr)
			}
			if xerr := gc.ExecuteTrx(ctx); xerr != nil {
				t.Fatalf("ExecuteTrx at %d: %v", h, xerr)
			}
		}
		if _, xerr := gc.EndBlock(bctx); xerr != nil {
			t.Fatalf("REPLAY-VIOLATION: EndBlock(%d) failed while applying a proposal whose option passed validation and won the vote: %v (RigoApp.EndBlock panics on this error, on every node and on every replay of the block)", h, xerr)
		}
		if _, _, xerr := gc.Commit(); xerr != nil {
			t.Fatalf("Commit(%d): %v", h, xerr)
		}
	}
	block(1)
	block(2)
	// Test1GovParams: voting period 10, lazy applying 10: start 5, end 15, applying 26
	prop := web3.NewTrxProposal(w.Address(), rtypes.ZeroAddress(), 0, 10, uint256.NewInt(10), "option in the form the hotfix rewrites", 5, 10, 26, proposal.PROPOSAL_GOVPARAMS, []byte(`{"gasPrice":""}`))
	pbz, _ := prop.Encode()
	block(3, prop)
	block(4)
	block(5, web3.NewTrxVoting(w.Address(), rtypes.ZeroAddress(), 1, 10, uint256.NewInt(10), crypto.DefaultHash(pbz), 0))
	for h := int64(6); h <= 27; h++ {
		block(h)
	}
}
