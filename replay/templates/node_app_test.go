package node

// Replay fixture at application level (C09 and others): a real RigoApp on a temporary directory,
// initialised with one genesis validator. Injected with `go test -overlay`; never written into /repo.

import (
	"os"
	"path/filepath"
	"testing"

	"github.com/holiman/uint256"
	cfg "github.com/rigochain/rigo-go/cmd/config"
	rctypes "github.com/rigochain/rigo-go/ctrlers/types"
	"github.com/rigochain/rigo-go/genesis"
	"github.com/rigochain/rigo-go/libs/web3"
	abcitypes "github.com/tendermint/tendermint/abci/types"
	tmcrypto "github.com/tendermint/tendermint/proto/tendermint/crypto"
	tmjson "github.com/tendermint/tendermint/libs/json"
	"github.com/tendermint/tendermint/libs/log"
	tmproto "github.com/tendermint/tendermint/proto/tendermint/types"
)

func zzNewApp(t *testing.T) (*RigoApp, *web3.Wallet) {
	dir, err := os.MkdirTemp("", "zzapp")
	if err != nil {
		t.Fatal(err)
	}
	t.Cleanup(func() { os.RemoveAll(dir) })
	c := cfg.DefaultConfig()
	c.SetRoot(dir)
	if err := os.MkdirAll(filepath.Join(dir, "data"), 0o700); err != nil {
		t.Fatal(err)
	}
	_ = os.MkdirAll(c.DBDir(), 0o700)
	app := NewRigoApp(c, log.NewNopLogger())
	w := web3.NewWallet([]byte("1"))
	_ = w.Unlock([]byte("1"))
	app.Info(abcitypes.RequestInfo{})
	appState := genesis.GenesisAppState{
		AssetHolders: []*genesis.GenesisAssetHolder{{Address: w.Address(), Balance: uint256.MustFromDecimal("1000000000000000000000")}},
		GovParams:    rctypes.Test1GovParams(),
	}
	bz, err := tmjson.Marshal(appState)
	if err != nil {
		t.Fatal(err)
	}
	app.InitChain(abcitypes.RequestInitChain{
		ChainId:       "zzreplay",
		Validators:    []abcitypes.ValidatorUpdate{{PubKey: tmcrypto.PublicKey{Sum: &tmcrypto.PublicKey_Secp256K1{Secp256K1: w.GetPubKey()}}, Power: 10}},
		AppStateBytes: bz,
	})
	return app, w
}

// obligation node.(*RigoApp).deliverTxSync#nil.field.Tx~10: a transaction that cannot be decoded (or whose
// sender is unknown) inside a block must get an error response, not crash the node.
func TestReplay_DeliverUndecodableTx(t *testing.T) {
	app, _ := zzNewApp(t)
	app.BeginBlock(abcitypes.RequestBeginBlock{Header: tmproto.Header{Height: 1}})
	defer func() {
		if r := recover(); r != nil {
			t.Fatalf("clause violated: DeliverTx panicked on an undecodable transaction: %v", r)
		}
	}()
	resp := app.DeliverTx(abcitypes.RequestDeliverTx{Tx: []byte{0xff, 1, 2}})
	if resp.Code == 0 {
		t.Fatalf("undecodable transaction accepted")
	}
}

// obligation ctrlers/vm/evm.(*EVMCtrler).Query#bounds.slice: a vm_call query whose data is shorter than
// two addresses must be answered with an error, not crash the node.
func TestReplay_VMCallShortData(t *testing.T) {
	app, _ := zzNewApp(t)
	defer func() {
		if r := recover(); r != nil {
			t.Fatalf("clause violated: Query(vm_call) panicked on short data: %v", r)
		}
	}()
	resp := app.Query(abcitypes.RequestQuery{Path: "vm_call", Data: []byte{1, 2, 3}})
	if resp.Code == 0 {
		t.Fatalf("malformed vm_call accepted")
	}
}
