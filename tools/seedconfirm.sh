#!/bin/bash
# seedconfirm.sh <ID> <k> : confirm a sub-agent's seeded change in its scratch worktree /tmp/wt-<ID>:
# demo passes on the clean tree, fails with the patch; build + touched-package tests still pass with the patch.
# On success copies it to /verif/seeded/<ID>-<k>/ .
export GOFLAGS=-mod=mod GOPROXY=off GOSUMDB=off GOTOOLCHAIN=local
id=$1; k=$2; wt=/tmp/wt-$id; d=$wt/seeded/$k
cd $wt || exit 2
git checkout -q -- . 
meta=$d/meta.json
dtp=$(python3 -c "import json;print(json.load(open('$meta'))['demo_test_path'])")
pkgdir=$(dirname $dtp)
demo=$(ls $d/*_test.go | head -1)
run=$(python3 -c "
import json,re
m=json.load(open('$meta'))['demo_run']
m=re.sub(r'export [^;]*;','',m).strip()
print(m)")
cp $demo $wt/$dtp
echo "== clean tree: $run"
( cd $wt && eval "$run" > /tmp/seed-$id-$k-clean.log 2>&1 ); c=$?
git apply $d/patch.diff || { echo "patch does not apply"; rm -f $wt/$dtp; exit 3; }
echo "== patched: build"
go build ./... > /tmp/seed-$id-$k-build.log 2>&1; b=$?
( cd $wt && eval "$run" > /tmp/seed-$id-$k-patched.log 2>&1 ); p=$?
rm -f $wt/$dtp
echo "== patched: existing tests of touched packages"
pkgs=$(git diff --name-only | xargs -n1 dirname | sort -u | sed 's|^|./|')
go test -vet=off -count=1 $pkgs > /tmp/seed-$id-$k-tests.log 2>&1; t=$?
git checkout -q -- .
echo "clean_exit=$c patched_exit=$p build=$b tests=$t"
if [ $c -eq 0 ] && [ $p -ne 0 ] && [ $b -eq 0 ] && [ $t -eq 0 ]; then
  mkdir -p /verif/seeded/$id-$k && cp $d/patch.diff $demo /verif/seeded/$id-$k/
  python3 - <<PY
import json
m=json.load(open('$meta'))
m['confirmed']={'clean_tree_demo_exit':$c,'patched_demo_exit':$p,'build_exit':$b,'touched_pkg_tests_exit':$t,'how':'tools/seedconfirm.sh in scratch worktree /tmp/wt-$id (commit 29df51b)'}
json.dump(m,open('/verif/seeded/$id-$k/meta.json','w'),indent=1)
PY
  echo CONFIRMED $id-$k
else
  echo REJECTED $id-$k
fi
