#!/bin/bash
# benignall.sh : applies every benign change (seeded/benign-*/patch.diff: semantics-preserving edits) to a scratch copy
# of /repo and runs the checks named in its `props` file; every line must say quiet.
export GOFLAGS=-mod=mod GOPROXY=off GOSUMDB=off GOTOOLCHAIN=local
cd /verif
rm -rf /tmp/benignbase; mkdir -p /tmp/benignbase; rsync -a --exclude .git /repo/ /tmp/benignbase/
LIST="$@"; [ -z "$LIST" ] && LIST=$(ls -d seeded/benign-* | xargs -n1 basename)
for s in $LIST; do d=seeded/$s;
  w=/tmp/benignrepo-$s; rm -rf $w; mkdir -p $w; rsync -a /tmp/benignbase/ $w/
  ( cd $w && patch -p1 -s < /verif/$d/patch.diff ) || { echo "$s patch-failed"; continue; }
  ( cd $w && go build ./... ) || { echo "$s does-not-build"; continue; }
  for p in $(cat $d/props); do
    out=$(bin/vcheck -repo $w -evidence /tmp/verif-scratch-evidence-$s -p $p 2>&1)
    v=$(echo "$out" | grep -c '^VIOLATION')
    if [ "$v" -gt 0 ]; then echo "$s $p ALARM $(echo "$out" | grep '^VIOLATION' | head -2 | sed 's/.*replay=[^ ]*\///' | tr '\n' ' ')"; else echo "$s $p quiet"; fi
  done
  rm -rf $w /tmp/verif-scratch-evidence-$s
done
rm -rf /tmp/benignbase
