#!/bin/bash
# seedall.sh [seed ...] : runs every seeded change (or the listed ones) against the check of its property on a
# scratch copy of /repo (so /repo itself is never touched), two at a time; results in seeded/RESULTS.tsv
# columns: seed, property, caught(yes/no), first failing obligation, summary line
export GOFLAGS=-mod=mod GOPROXY=off GOSUMDB=off GOTOOLCHAIN=local
cd /verif
seeds="$@"; [ -z "$seeds" ] && seeds=$(ls seeded | grep -E '^(C[0-9]+-[0-9]+|canary-F[0-9]+)$')
run_one() {
  s=$1; prop=${s%%-*}
  case $s in canary-*) prop=$(jq -r .property /verif/seeded/$s/meta.json);; esac
  # a seed is also tried against the extra properties named in seeded/<s>/also (one id per line)
  props="$prop $(cat /verif/seeded/$s/also 2>/dev/null)"
  w=/tmp/seedrepo-$s; rm -rf $w; mkdir -p $w
  rsync -a /tmp/seedbase/ $w/
  ( cd $w && patch -p1 -s < /verif/seeded/$s/patch.diff ) || { echo -e "$s\t$prop\tpatch-failed\t-\t-"; rm -rf $w; return; }
  for p in $props; do
    out=$(/verif/bin/vcheck -repo $w -evidence /tmp/verif-scratch-evidence-$s -p $p 2>&1)
    v=$(echo "$out" | grep -c '^VIOLATION')
    first=$(echo "$out" | grep '^VIOLATION' | head -1 | sed 's/.*replay=[^ ]*\/\([^ /]*\)\.json.*/\1/')
    sum=$(echo "$out" | grep -E "^$p:" | tail -1)
    if [ "$v" -gt 0 ]; then echo -e "$s\t$p\tyes\t$first\t$sum"; else echo -e "$s\t$p\tno\t-\t$sum"; fi
  done
  rm -rf $w /tmp/verif-scratch-evidence-$s
}
export -f run_one
# one snapshot of /repo for the whole run (later edits of /repo do not mix into it)
rm -rf /tmp/seedbase; mkdir -p /tmp/seedbase; rsync -a --exclude .git /repo/ /tmp/seedbase/
echo $seeds | tr ' ' '\n' | xargs -P 3 -I{} bash -c 'run_one {}' > /tmp/seedall.tsv
rm -rf /tmp/seedbase
if [ $# -eq 0 ]; then cut -f1-4 /tmp/seedall.tsv | sort > /verif/seeded/RESULTS.tsv; else
  # partial run: replace only the lines of the seeds that were run
  for s in "$@"; do grep -v -P "^$s\t" /verif/seeded/RESULTS.tsv > /tmp/res.$$ ; mv /tmp/res.$$ /verif/seeded/RESULTS.tsv; done
  cut -f1-4 /tmp/seedall.tsv >> /verif/seeded/RESULTS.tsv; sort -o /verif/seeded/RESULTS.tsv /verif/seeded/RESULTS.tsv
fi
cut -f1-4 /tmp/seedall.tsv | sort
