#!/bin/bash
# seedconfirm2.sh <ID> <k> : like seedconfirm.sh, for the layout /tmp/wt-<ID>/out/<ID>-<k>/{patch.diff,zz_demo<k>_test.go,meta.json}
# (meta.demo holds the go test command; the package directory is its last ./path argument).
export GOFLAGS=-mod=mod GOPROXY=off GOSUMDB=off GOTOOLCHAIN=local
id=$1; k=$2; wt=/tmp/wt7-$id; d=$wt/out/$id-$k; nk=$3
cd $wt || exit 2
git checkout -q -- . ; git clean -fdq -e out -e tmp
demo=$(ls $d/*_test.go | head -1)
pkg=$(python3 -c "
import json,re
m=json.load(open('$d/meta.json'))['demo']
c=re.findall(r'\./[A-Za-z0-9_/]+',m)
print(c[-1].rstrip('/'))")
tname=$(grep -o "func Test[A-Za-z0-9_]*" $demo | head -1 | sed 's/func //')
run="go test -vet=off -count=1 -timeout 600s -run ^$tname\$ $pkg/"
cp $demo $wt/$pkg/
echo "== clean tree: $run"
( cd $wt && eval "$run" > /tmp/seed-$id-$k-clean.log 2>&1 ); c=$?
rm -f $wt/$pkg/$(basename $demo)
git apply $d/patch.diff || { echo "patch does not apply"; exit 3; }
go build ./... > /tmp/seed-$id-$k-build.log 2>&1; b=$?
cp $demo $wt/$pkg/
( cd $wt && eval "$run" > /tmp/seed-$id-$k-patched.log 2>&1 ); p=$?
rm -f $wt/$pkg/$(basename $demo)
pkgs=$(git diff --name-only | xargs -n1 dirname | sort -u | sed 's|^|./|')
go test -vet=off -count=1 -timeout 900s $pkgs > /tmp/seed-$id-$k-tests.log 2>&1; t=$?
git checkout -q -- . ; git clean -fdq -e out -e tmp
echo "clean_exit=$c patched_exit=$p build=$b tests=$t"
if [ $c -eq 0 ] && [ $p -ne 0 ] && [ $b -eq 0 ] && [ $t -eq 0 ]; then
  mkdir -p /verif/seeded/$id-$nk && cp $d/patch.diff $demo /verif/seeded/$id-$nk/
  python3 - <<PY
import json
m=json.load(open('$d/meta.json'))
m['confirmed']={'clean_tree_demo_exit':$c,'patched_demo_exit':$p,'build_exit':$b,'touched_pkg_tests_exit':$t,'how':'tools/seedconfirm2.sh in scratch worktree /tmp/wt7-$id','demo_run':"$run"}
json.dump(m,open('/verif/seeded/$id-$nk/meta.json','w'),indent=1)
PY
  echo CONFIRMED $id-$k as $id-$nk
else
  echo REJECTED $id-$k
fi
