#!/usr/bin/env python3
# rewrites the functions/obligations columns of the status table in DESIGN.md §8.2 from evidence/*.json
import json, re
s = open('/verif/DESIGN.md').read()
out = []
for l in s.split('\n'):
    m = re.match(r'^\| (C\d\d) \| yes \| (\d+) \| (\d+) \|(.*)$', l)
    if m:
        e = json.load(open(f'/verif/evidence/{m.group(1)}.json'))
        l = f"| {m.group(1)} | yes | {len(e['functions_under_contract'])} | {e['coverage']['obligations']} |{m.group(4)}"
    m = re.match(r'^\| C01 \| yes \(`other`\) \| (\d+) \+ (\d+) scanned \| (\d+) \|(.*)$', l)
    if m:
        e = json.load(open('/verif/evidence/C01.json'))
        l = f"| C01 | yes (`other`) | {len(e['functions_under_contract'])} + {e['coverage'].get('effect_obligations', m.group(2))} scanned | {e['coverage']['obligations']} |{m.group(4)}"
    out.append(l)
open('/verif/DESIGN.md', 'w').write('\n'.join(out))
