#!/usr/bin/env python3
# keeps MANIFEST.json's not_applicable list covering every property that has no check
import json
m=json.load(open('/verif/MANIFEST.json'))
props=[json.loads(l)['id'] for l in open('/verif/properties.jsonl')]
claimed={c['property_id'] for c in m['checks']}
old={e['property_id']:e['reason'] for e in m.get('not_applicable',[])}
na=[]
for p in props:
    if p in claimed: continue
    na.append({"property_id":p,"reason":old.get(p,"not claimed yet: the functions this property depends on are not all under contract with every obligation discharged; see DESIGN.md (status table)")})
m['not_applicable']=na
json.dump(m,open('/verif/MANIFEST.json','w'),indent=1)
print("claimed",sorted(claimed),"na",[e['property_id'] for e in na])
