#!/bin/bash
# validates MANIFEST.json and every evidence file against the given schemas
python3-vt - <<'PY'
import json,jsonschema,glob
jsonschema.validate(json.load(open('/verif/MANIFEST.json')),json.load(open('/root/.vp/MANIFEST.schema.json')))
s=json.load(open('/root/.vp/EVIDENCE.schema.json'))
m=json.load(open('/verif/MANIFEST.json'))
for f in glob.glob('/verif/evidence/*.json'):
    e=json.load(open(f)); jsonschema.validate(e,s)
    assert e['coverage']['obligations']==e['coverage']['discharged'], f
    assert not e['violations'], f
print('valid', len(glob.glob('/verif/evidence/*.json')))
PY
