#!/bin/bash
# runs the quick check of every property in props.json on /repo as it is (clean tree expected), 3 at a time;
# evidence goes to /verif/evidence, summaries to /tmp/runall.log
cd /verif
props=$(python3 -c "import json;print(' '.join(k for k in json.load(open('props.json')).keys() if not k.startswith('_')))")
: > /tmp/runall.log
echo $props | tr ' ' '\n' | xargs -P 3 -I{} sh -c 'bin/vcheck -p {} 2>&1 | grep -E "VIOLATION|KNOWN|^C[0-9]+:" | cut -c1-240 >> /tmp/runall.log'
sort /tmp/runall.log
