#!/bin/bash
if [ -n "$(git -C /repo status --porcelain)" ]; then echo "refusing: /repo has uncommitted changes"; exit 3; fi
# seedrun.sh <seed dir name under /verif/seeded> <property id> : apply the seeded change to /repo, run the
# property's quick check, undo the change. Prints the VIOLATION lines and the summary line.
d=/verif/seeded/$1; prop=$2
cd /repo && git apply $d/patch.diff || { echo "patch failed"; exit 2; }
cd /verif && ./bin/vcheck -evidence /tmp/verif-scratch-evidence -p $prop 2>&1 | grep -E "VIOLATION|KNOWN|^C[0-9]+:" | cut -c1-220
cd /repo && git checkout -q -- . && git status --short | head -3
