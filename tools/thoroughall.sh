cd /verif
for p in $(python3 -c "import json;print(' '.join(k for k in json.load(open('props.json')).keys() if not k.startswith('_')))"); do
  bin/vcheck -evidence /tmp/verif-scratch-evidence -p $p -tier thorough 2>&1 | grep -E "VIOLATION|^C[0-9]+:" | cut -c1-200
done
