#!/usr/bin/env python3
# smtdiag.py <file.smt2> : drop quantified hypotheses, solve, and print the values of the sub-terms of the goal
import sys,re,subprocess
lines=open(sys.argv[1]).read().split('\n')
asserts=[i for i,l in enumerate(lines) if l.startswith('(assert')]
last=asserts[-1]
keepq = len(sys.argv)>2 and sys.argv[2]=="q"
out=[l for i,l in enumerate(lines) if keepq or not (l.startswith('(assert') and ('forall' in l or 'exists' in l) and i!=last)]
out=[l for l in out if not l.startswith('(get-model') and not l.startswith('(check-sat')]
defs={}
for l in lines:
    m=re.match(r'\(define-fun (\$t\d+) \(\) (\S+|\(.*?\)) (.*)\)$',l)
    if m: defs[m.group(1)]=(m.group(2),m.group(3))
goal=lines[last]
print("GOAL:",goal[:1500])
names=[]
def collect(expr,depth):
    for n in re.findall(r'\$t\d+',expr):
        if n not in names:
            names.append(n)
            if depth>0 and n in defs: collect(defs[n][1],depth-1)
collect(goal,int(sys.argv[3]) if len(sys.argv)>3 else 2)
scalars=[n for n in names if n in defs and defs[n][0] in ('Int','Bool')]
out.append('(check-sat)')
out.append('(get-value (%s))'%' '.join(scalars))
open('/tmp/diag.smt2','w').write('\n'.join(out))
r=subprocess.run(['z3-new','-T:30','/tmp/diag.smt2'],capture_output=True,text=True).stdout
print(r[:200])
vals=dict(re.findall(r'\((\$t\d+) ([^()]+|\(- \d+\))\)',r))
for n in scalars:
    print(n,'=',vals.get(n),'  :=',defs[n][1][:200])
