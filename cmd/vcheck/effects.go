package main

import (
	"fmt"
	"sort"
	"strings"

	"verif/govc"
)

// EffectCfg configures the effect-contract obligations of a property (C01): every repository function in the
// call closure of the consensus entry points answers for the nondeterminism-relevant primitives of its own
// body; each primitive must be declared by an `effect` clause in the package's contract file.
type EffectCfg struct {
	Kind        string   `json:"kind"`
	Roots       []string `json:"roots"`
	RootMethods []string `json:"root_methods"` // methods reached through reflection (json/rlp encoders of stored items)
	SkipPkgs    []string `json:"skip_pkgs"`
	MinFuncs    int      `json:"min_funcs"`
}

func runEffects(e *govc.Engine, cfg *EffectCfg, prop string, ev *Evidence, addViolation func(obl, text, detail string, res *govc.SolverResult)) {
	found, notes := e.EffectScan(cfg.Roots, cfg.RootMethods, cfg.SkipPkgs)
	for _, n := range notes {
		addViolation("effect.binding", "effect scan: "+n, "", nil)
	}
	keys := make([]string, 0, len(found))
	for k := range found {
		keys = append(keys, k)
	}
	sort.Strings(keys)
	declaredUsed := map[string]bool{}
	nEff := 0
	for _, k := range keys {
		ev.Coverage.Obligations++
		ev.Coverage.EffectObls++
		decl := e.DB.Effects[k]
		var undeclared []string
		for _, ef := range found[k] {
			nEff++
			if _, ok := decl[ef.ID]; ok {
				declaredUsed[k+" "+ef.ID] = true
				continue
			}
			undeclared = append(undeclared, fmt.Sprintf("%s (%s at %s:%d)", ef.ID, ef.Detail, strings.TrimPrefix(ef.Pos.Filename, repoDir+"/"), ef.Pos.Line))
		}
		if len(undeclared) == 0 {
			ev.Coverage.Discharged++
			st := ev.BySolver["effect-scan"]
			if st == nil {
				st = &SolverStat{}
				ev.BySolver["effect-scan"] = st
			}
			st.Count++
			continue
		}
		addViolation("effect."+short(k), "the body contains a nondeterminism-relevant primitive that its contract does not declare: "+strings.Join(undeclared, "; "),
			"effect clause missing: a consensus-path function may range over a map, start a goroutine, select, receive from a channel, read the clock/environment/random source or convert a pointer to an integer only if its contract declares it with a justification (C01)", nil)
	}
	// declared effects that no longer exist are reported as notes only (harmless), but a declared function that fell
	// out of the closure is a binding problem worth knowing
	var stale []string
	for k, m := range e.DB.Effects {
		for id := range m {
			if !declaredUsed[k+" "+id] {
				stale = append(stale, short(k)+" "+id)
			}
		}
	}
	sort.Strings(stale)
	if len(stale) > 0 {
		ev.addAssumption("effect clauses that matched nothing in this run (stale, harmless): " + strings.Join(stale, ", "))
	}
	if cfg.MinFuncs > 0 && len(keys) < cfg.MinFuncs {
		addViolation("effect.count", fmt.Sprintf("the consensus call closure has only %d repository functions, expected at least %d (a root stopped binding)", len(keys), cfg.MinFuncs), "", nil)
	}
	ev.addAssumption(fmt.Sprintf("effect obligations: %d repository functions in the CHA call closure of the consensus entry points, %d declared primitives; decided by a syntactic scan of go/ssa (not SMT); dependencies (iavl, tm-db, go-ethereum, protobuf, encoding/json, rlp, sort) are assumed deterministic", len(keys), nEff))
}
