package main

import "verif/govc"

// EffectCfg configures the effect-contract obligations of a property (filled in by effects checks).
type EffectCfg struct {
	Kind  string   `json:"kind"`
	Roots []string `json:"roots"`
	Allow []string `json:"allow"`
}

func runEffects(e *govc.Engine, cfg *EffectCfg, prop string, ev *Evidence, addViolation func(obl, text, detail string, res *govc.SolverResult)) {
}
