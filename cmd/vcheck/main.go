// vcheck decides one property: it loads /repo's current working tree, generates the proof obligations
// of the property's functions under contract, discharges them with the SMT back ends and writes
// /verif/evidence/<id>.json. Exit 0: every obligation discharged (or listed as known finding);
// exit 1 with a VIOLATION line otherwise.
package main

import (
	"encoding/json"
	"flag"
	"fmt"
	"os"
	"os/exec"
	"path/filepath"
	"sort"
	"strconv"
	"strings"
	"sync"
	"time"

	"verif/govc"
)

type PropCfg struct {
	Pkgs        []string `json:"pkgs"`
	Funcs       []string `json:"funcs"`
	Include     []string `json:"include,omitempty"` // properties whose function lists (and packages) this one also checks: the contracts it relies on
	SafetyFuncs []string `json:"safety_funcs"` // zero-annotation no-panic sweep (safety obligations only)
	Safety      bool     `json:"safety"`
	NoSafety    []string `json:"nosafety_funcs"` // functions of the list whose safety obligations are not claimed (stated in residue)
	NoSafetyObl []string `json:"nosafety_obligations"` // single safety obligations not claimed: "<func>#<kind>.<label>" without the ~n ordinal (assumed, stated in residue)
	Arith       bool     `json:"arith"`
	Lemmas      []string `json:"lemmas"`
	Trusted     []string `json:"trusted_base"`
	Residue     []string `json:"residue"`
	MinObls     int      `json:"min_obligations"`
	Level       string   `json:"level,omitempty"`       // evidence level when it is not "proof"
	Explanation string   `json:"explanation,omitempty"` // coverage.explanation for level "other"
	Effects     *EffectCfg `json:"effects,omitempty"`
}

type Finding struct {
	Property    string `json:"property"`
	Obligation  string `json:"obligation"`
	Status      string `json:"status"` // known | fixed
	Description string `json:"description"`
	Commit      string `json:"commit,omitempty"`
	Witness     string `json:"witness,omitempty"`
}

func main() {
	prop := flag.String("p", "", "property id")
	tier := flag.String("tier", os.Getenv("VERIF_TIER"), "quick|thorough")
	repo := flag.String("repo", "/repo", "repository working tree")
	verif := flag.String("verif", "/verif", "verification directory")
	keep := flag.Bool("keep", false, "keep all SMT files")
	evDir := flag.String("evidence", "", "directory for the evidence file (default <verif>/evidence); scratch runs against modified trees use another one")
	flag.Parse()
	if *tier == "" {
		*tier = "quick"
	}
	repoDir = *repo
	if *evDir != "" {
		evidenceDir = *evDir
	} else {
		evidenceDir = filepath.Join(*verif, "evidence")
	}
	seed := 1
	if s := os.Getenv("VERIF_SEED"); s != "" {
		if v, err := strconv.Atoi(s); err == nil {
			seed = v
		}
	}
	start := time.Now()
	var cfgs map[string]*PropCfg
	if err := readJSON(filepath.Join(*verif, "props.json"), &cfgs); err != nil {
		fatal("props.json: %v", err)
	}
	cfg := cfgs[*prop]
	if cfg == nil {
		fatal("unknown property %q", *prop)
	}
	for _, inc := range cfg.Include {
		ic := cfgs[inc]
		if ic == nil {
			fatal("props.json: %s includes unknown property %q", *prop, inc)
		}
		have := map[string]bool{}
		for _, f := range cfg.Funcs {
			have[f] = true
		}
		for _, f := range ic.Funcs {
			if !have[f] {
				cfg.Funcs = append(cfg.Funcs, f)
			}
		}
		hp := map[string]bool{}
		for _, q := range cfg.Pkgs {
			hp[q] = true
		}
		for _, q := range ic.Pkgs {
			if !hp[q] {
				cfg.Pkgs = append(cfg.Pkgs, q)
			}
		}
	}
	var findings []Finding
	_ = readJSON(filepath.Join(*verif, "known_findings.json"), &findings)

	timeout := 10
	mode := "race"
	if *tier == "thorough" {
		timeout = 60
		mode = "all"
	}
	work := filepath.Join(*verif, ".work", *prop)
	_ = os.RemoveAll(work)
	_ = os.MkdirAll(work, 0o755)
	replayDir := filepath.Join(*verif, "replay", "out", *prop)
	_ = os.RemoveAll(replayDir)

	e, err := govc.Load(*repo, "github.com/rigochain/rigo-go", cfg.Pkgs, filepath.Join(*verif, "spec"))
	ev := &Evidence{PropertyID: *prop, Tier: *tier, Seed: seed, Level: "proof"}
	if cfg.Level != "" {
		ev.Level = cfg.Level
		ev.Coverage.Explanation = cfg.Explanation
	}
	ev.Coverage.CheckerCmd = fmt.Sprintf("bin/vcheck -p %s -tier %s", *prop, *tier)
	var violations []Violation
	addViolation := func(obl, text, detail string, res *govc.SolverResult) {
		violations = append(violations, Violation{Obligation: obl, Text: text, Detail: detail, Result: res})
	}
	if err != nil {
		addViolation("load."+*prop, "the working tree does not load/type-check with -tags verif", err.Error(), nil)
		finish(ev, cfg, violations, findings, replayDir, start, *verif, *prop)
		return
	}
	for _, se := range e.DB.Errors {
		addViolation("spec."+*prop, "contract file does not parse", se, nil)
	}

	type job struct {
		r *govc.FuncResult
		o *govc.Obligation
	}
	var jobs []job
	var results []*govc.FuncResult
	funcs := append([]string{}, cfg.Funcs...)
	safetyOnly := map[string]bool{}
	for _, f := range cfg.SafetyFuncs {
		safetyOnly[full(f)] = true
		funcs = append(funcs, f)
	}
	seenF := map[string]bool{}
	genStart := time.Now()
	for _, f := range funcs {
		key := full(f)
		if seenF[key] {
			continue
		}
		seenF[key] = true
		if e.DB.Contracts[key] == nil && !safetyOnly[key] {
			addViolation("binding."+short(key), "no contract found for a function the property depends on", key, nil)
			continue
		}
		if ct := e.DB.Contracts[key]; ct != nil && ct.Trusted {
			ev.Trusted = append(ev.Trusted, short(key)+" (contract assumed, body not verified)")
			continue
		}
		safe := cfg.Safety || safetyOnly[key]
		for _, ns := range cfg.NoSafety {
			if full(ns) == key {
				safe = false
			}
		}
		r, err := e.VerifyFunction(key, govc.VerifyOpts{Safety: safe, Arith: cfg.Arith})
		if err != nil {
			addViolation("binding."+short(key), "function under contract not found in the working tree", err.Error(), nil)
			continue
		}
		results = append(results, r)
		if ct := e.DB.Contracts[key]; ct != nil && ct.Implements != "" {
			rr, err := e.VerifyRefinement(key)
			if err != nil {
				addViolation("binding."+short(key)+"~refines", "role contract not found", err.Error(), nil)
			} else {
				results = append(results, rr)
				for _, se := range rr.SpecErrors {
					addViolation("spec."+short(key)+"~refines", "contract does not bind to the code", se, nil)
				}
				for _, o := range rr.Obls {
					if tagMatch(o.Tags, *prop) {
						jobs = append(jobs, job{rr, o})
					}
				}
			}
		}
		for _, se := range r.SpecErrors {
			addViolation("spec."+short(key), "contract does not bind to the code", se, nil)
		}
		for _, u := range r.Unsound {
			addViolation("subset."+short(key), "the function left the verifiable subset", u, nil)
		}
		for _, o := range r.Obls {
			if !tagMatch(o.Tags, *prop) {
				continue
			}
			if o.Safety && unclaimedSafety(cfg.NoSafetyObl, o.Name) {
				ev.addAssumption("safety obligation not claimed (assumed, see residue): " + short(o.Name))
				continue
			}
			jobs = append(jobs, job{r, o})
		}
	}
	genSecs := time.Since(genStart).Seconds()
	// discharge
	var wg sync.WaitGroup
	sem := make(chan struct{}, 6)
	for _, j := range jobs {
		j := j
		wg.Add(1)
		sem <- struct{}{}
		go func() {
			defer wg.Done()
			defer func() { <-sem }()
			govc.Discharge(j.r, j.o, work, timeout, seed, mode)
		}()
	}
	wg.Wait()
	// smoke (vacuity) per function
	vacuity := 0
	type smokeRes struct {
		key, res string
	}
	smokeCh := make(chan smokeRes, len(results))
	for _, r := range results {
		r := r
		wg.Add(1)
		sem <- struct{}{}
		go func() {
			defer wg.Done()
			defer func() { <-sem }()
			smokeCh <- smokeRes{r.Key, govc.Smoke(r, work, 3)}
		}()
	}
	wg.Wait()
	close(smokeCh)
	for s := range smokeCh {
		vacuity++
		if s.res == "VACUOUS" {
			addViolation("vacuity."+short(s.key), "the hypotheses of the function (requires, assumed invariants, library contracts) are contradictory", "smoke obligation `false` was proved", nil)
		}
	}
	ev.Coverage.VacuityChecks = vacuity

	bySolver := map[string]*SolverStat{}
	var slow []SlowOb
	for _, j := range jobs {
		o := j.o
		ev.Coverage.Obligations++
		if o.Status == "discharged" {
			ev.Coverage.Discharged++
			st := bySolver[o.Result.Solver]
			if st == nil {
				st = &SolverStat{}
				bySolver[o.Result.Solver] = st
			}
			st.Count++
			st.Seconds += o.Result.Seconds
			ev.SolverTime += o.Result.Seconds
			slow = append(slow, SlowOb{o.Name, o.Result.Seconds, o.Result.Solver})
			if len(ev.Coverage.Samples) < 6 && !o.Safety {
				ev.Coverage.Samples = append(ev.Coverage.Samples, map[string]any{"obligation": o.Name, "clause": o.Text, "hypotheses": o.NHyps, "result": o.Result.Status, "solver": o.Result.Solver, "seconds": round3(o.Result.Seconds), "at": o.Pos})
			}
		} else {
			res := o.Result
			addViolation(o.Name, o.Text, "at "+o.Pos, &res)
		}
	}
	sort.Slice(slow, func(i, k int) bool { return slow[i].Seconds > slow[k].Seconds })
	if len(slow) > 5 {
		slow = slow[:5]
	}
	ev.Slowest = slow
	ev.BySolver = bySolver
	for _, r := range results {
		ev.Functions = append(ev.Functions, short(r.Key))
		ex := Extraction{Function: short(r.Key), Instrs: r.Instrs, Inlined: r.Inlined, Abstracted: r.Notes}
		ev.Extraction = append(ev.Extraction, ex)
		if ct := e.DB.Contracts[r.Key]; ct != nil {
			for _, cl := range ct.Assumes {
				ev.addAssumption("assumes clause of " + short(r.Key) + ": " + cl.Text)
			}
			for id, cls := range ct.LoopAssume {
				for _, cl := range cls {
					ev.addAssumption(fmt.Sprintf("assumes clause of %s, loop %d: %s", short(r.Key), id, cl.Text))
				}
			}
		}
		for _, k := range r.UsedContracts {
			if ct := e.DB.Contracts[k]; ct != nil && (ct.Lib || ct.Trusted) {
				ev.addAssumption("assumed contract: " + short(k))
			}
		}
	}
	if e.MathAssumed() {
		ev.addAssumption("signed machine arithmetic treated as mathematical (no-overflow assumed) outside functions marked arith; unsigned add/sub wrap exactly")
	}
	ev.GenSeconds = round3(genSecs + e.LoadSecs)
	// effect obligations (syntactic effect/frame contracts), if configured
	if cfg.Effects != nil {
		runEffects(e, cfg.Effects, *prop, ev, addViolation)
	}
	// obligation count guard
	if cfg.MinObls > 0 && ev.Coverage.Obligations < cfg.MinObls {
		addViolation("count."+*prop, fmt.Sprintf("only %d obligations were generated, expected at least %d (a contract stopped binding or a function fell out)", ev.Coverage.Obligations, cfg.MinObls), "", nil)
	}
	if !*keep {
		// keep only the SMT files of failed obligations
		failed := map[string]bool{}
		for _, v := range violations {
			failed[v.Obligation] = true
		}
		ents, _ := os.ReadDir(work)
		for _, en := range ents {
			n := strings.TrimSuffix(en.Name(), ".smt2")
			keepIt := false
			for f := range failed {
				if strings.HasPrefix(n, sanitizeFile(f)) {
					keepIt = true
				}
			}
			if !keepIt {
				_ = os.Remove(filepath.Join(work, en.Name()))
			}
		}
	}
	finish(ev, cfg, violations, findings, replayDir, start, *verif, *prop)
}

func sanitizeFile(s string) string {
	var sb strings.Builder
	for _, r := range s {
		switch {
		case r >= 'a' && r <= 'z', r >= 'A' && r <= 'Z', r >= '0' && r <= '9', r == '_', r == '.', r == '-', r == '#', r == '@':
			sb.WriteRune(r)
		default:
			sb.WriteByte('_')
		}
	}
	out := sb.String()
	if len(out) > 180 {
		out = out[:180]
	}
	return out
}

// tagMatch: clause tags document which property a clause was written for; a property's obligation set is
// every obligation of the functions it lists, because callers rely on all clauses of a callee's contract.
func tagMatch(tags []string, prop string) bool {
	return true
}

// unclaimedSafety: the obligation name without its ~n ordinal is listed in nosafety_obligations
func unclaimedSafety(list []string, name string) bool {
	if i := strings.LastIndex(name, "~"); i >= 0 {
		name = name[:i]
	}
	for _, l := range list {
		if short(l) == short(name) {
			return true
		}
	}
	return false
}

func full(k string) string {
	if strings.HasPrefix(k, "github.com/") {
		return k
	}
	return "github.com/rigochain/rigo-go/" + k
}

func short(k string) string { return strings.TrimPrefix(k, "github.com/rigochain/rigo-go/") }

func round3(f float64) float64 { return float64(int(f*1000+0.5)) / 1000 }

func readJSON(path string, v any) error {
	b, err := os.ReadFile(path)
	if err != nil {
		return err
	}
	return json.Unmarshal(b, v)
}

func fatal(format string, a ...any) {
	fmt.Fprintf(os.Stderr, "vcheck: "+format+"\n", a...)
	os.Exit(2)
}

type Violation struct {
	Obligation string
	Text       string
	Detail     string
	Result     *govc.SolverResult
}

type SolverStat struct {
	Count   int     `json:"count"`
	Seconds float64 `json:"seconds"`
}

type SlowOb struct {
	Obligation string  `json:"obligation"`
	Seconds    float64 `json:"seconds"`
	Solver     string  `json:"solver"`
}

type Extraction struct {
	Function   string   `json:"function"`
	Instrs     int      `json:"ssa_instructions_executed"`
	Inlined    int      `json:"inlined_calls"`
	Abstracted []string `json:"abstracted,omitempty"`
}

type Evidence struct {
	PropertyID string `json:"property_id"`
	Tier       string `json:"tier"`
	Seed       int    `json:"seed"`
	Level      string `json:"level"`
	Coverage   struct {
		Obligations   int              `json:"obligations"`
		Discharged    int              `json:"discharged"`
		CheckerCmd    string           `json:"checker_cmd"`
		TrustedBase   []string         `json:"trusted_base"`
		Samples       []map[string]any `json:"samples"`
		KnownFindings []string         `json:"known_findings"`
		VacuityChecks int              `json:"vacuity_checks"`
		Bounded       []string         `json:"bounded"`
		EffectObls    int              `json:"effect_obligations,omitempty"`
		Explanation   string           `json:"explanation,omitempty"`
	} `json:"coverage"`
	Assumptions []string               `json:"assumptions"`
	WallS       float64                `json:"wall_s"`
	Violations  int                    `json:"violations"`
	Functions   []string               `json:"functions_under_contract"`
	Trusted     []string               `json:"trusted_functions,omitempty"`
	BySolver    map[string]*SolverStat `json:"by_solver"`
	SolverTime  float64                `json:"solver_time_s"`
	GenSeconds  float64                `json:"load_and_vcgen_s"`
	Slowest     []SlowOb               `json:"slowest"`
	Extraction  []Extraction           `json:"extraction"`
	Residue     []string               `json:"residue_not_decided"`
	Failed      []string               `json:"failed_obligations,omitempty"`
	StaleKnown  []string               `json:"stale_known_findings,omitempty"`
}

func (ev *Evidence) addAssumption(s string) {
	for _, a := range ev.Assumptions {
		if a == s {
			return
		}
	}
	ev.Assumptions = append(ev.Assumptions, s)
}

var repoDir = "/repo"
var evidenceDir = "/verif/evidence"

type replayEntry struct {
	Obligation string `json:"obligation"`
	Pkg        string `json:"pkg"`
	Template   string `json:"template"`
	Test       string `json:"test"`
	Witness    string `json:"witness"`
}

// runReplay executes the replay template registered for an obligation against the real code of the
// working tree (go test -overlay; nothing is written into the repository). The template test fails
// iff the clause is violated by the real code on the concrete input it constructs.
func runReplay(verif, repo, obligation string) map[string]any {
	var reg []replayEntry
	if err := readJSON(filepath.Join(verif, "replay", "registry.json"), &reg); err != nil {
		return nil
	}
	for _, e := range reg {
		if e.Obligation != obligation {
			continue
		}
		ovDir, err := os.MkdirTemp("", "vreplay")
		if err != nil {
			return nil
		}
		defer os.RemoveAll(ovDir)
		ov := map[string]any{"Replace": map[string]string{filepath.Join(repo, e.Pkg, "zz_replay_test.go"): filepath.Join(verif, e.Template)}}
		ob, _ := json.Marshal(ov)
		ovf := filepath.Join(ovDir, "overlay.json")
		_ = os.WriteFile(ovf, ob, 0o644)
		cmd := exec.Command("go", "test", "-overlay", ovf, "-vet=off", "-count=1", "-timeout", "120s", "-run", "^"+e.Test+"$", "./"+e.Pkg)
		cmd.Dir = repo
		cmd.Env = append(os.Environ(), "GOFLAGS=-mod=mod", "GOPROXY=off", "GOSUMDB=off", "GOTOOLCHAIN=local")
		out, err := cmd.CombinedOutput()
		var keep []string
		for _, l := range strings.Split(string(out), "\n") {
			if strings.HasPrefix(l, "I[") || strings.HasPrefix(l, "D[") || strings.HasPrefix(l, "E[") {
				continue
			}
			keep = append(keep, l)
		}
		txt := strings.Join(keep, "\n")
		if len(txt) > 4000 {
			txt = txt[len(txt)-4000:]
		}
		return map[string]any{"template": e.Template, "test": e.Test, "witness": e.Witness, "reproduced": err != nil && strings.Contains(txt, "--- FAIL"), "go_test_output": txt}
	}
	return nil
}

func finish(ev *Evidence, cfg *PropCfg, violations []Violation, findings []Finding, replayDir string, start time.Time, verif, prop string) {
	known := map[string]Finding{}
	for _, f := range findings {
		if f.Property == prop && f.Status == "known" {
			known[f.Obligation] = f
		}
	}
	exit := 0
	seenKnown := map[string]bool{}
	var lines []string
	for _, v := range violations {
		if f, ok := known[v.Obligation]; ok {
			seenKnown[v.Obligation] = true
			lines = append(lines, fmt.Sprintf("KNOWN-FINDING: property=%s %s [%s]", prop, f.Description, v.Obligation))
			ev.Coverage.KnownFindings = append(ev.Coverage.KnownFindings, v.Obligation)
			// known findings are not part of the obligations required to hold
			if v.Result != nil {
				ev.Coverage.Obligations--
			}
			continue
		}
		exit = 1
		ev.Violations++
		ev.Failed = append(ev.Failed, v.Obligation)
		_ = os.MkdirAll(replayDir, 0o755)
		path := filepath.Join(replayDir, sanitizeFile(v.Obligation)+".json")
		rep := map[string]any{"property": prop, "obligation": v.Obligation, "clause": v.Text, "detail": v.Detail}
		suffix := " no-failing-input-found"
		if v.Result != nil {
			rep["solver_status"] = v.Result.Status
			rep["solver"] = v.Result.Solver
			rep["solver_output"] = v.Result.Output
			rep["all_solvers"] = v.Result.All
			if v.Result.Status == "sat" {
				rep["model"] = v.Result.Model
			}
		}
		rep["replay"] = "no replay template for this obligation; the verifier's output is attached"
		if rr := runReplay(verif, repoDir, v.Obligation); rr != nil {
			rep["replay"] = rr
			if rr["reproduced"] == true {
				suffix = ""
			}
		}
		b, _ := json.MarshalIndent(rep, "", " ")
		_ = os.WriteFile(path, b, 0o644)
		lines = append(lines, fmt.Sprintf("VIOLATION property=%s replay=%s%s", prop, path, suffix))
	}
	for o := range known {
		if !seenKnown[o] {
			ev.StaleKnown = append(ev.StaleKnown, o)
		}
	}
	sort.Strings(ev.StaleKnown)
	ev.Coverage.TrustedBase = append([]string{
		"Go type checker and go/ssa (front end), the govc VC generator, z3 4.8.12 / z3 5.1.0 / cvc5 1.0.3",
	}, cfg.Trusted...)
	ev.Residue = cfg.Residue
	if ev.Coverage.Samples == nil {
		ev.Coverage.Samples = []map[string]any{}
	}
	if ev.Coverage.KnownFindings == nil {
		ev.Coverage.KnownFindings = []string{}
	}
	if ev.Coverage.Bounded == nil {
		ev.Coverage.Bounded = []string{}
	}
	if ev.Assumptions == nil {
		ev.Assumptions = []string{}
	}
	sort.Strings(ev.Assumptions)
	ev.WallS = round3(time.Since(start).Seconds())
	ev.SolverTime = round3(ev.SolverTime)
	for _, s := range ev.BySolver {
		s.Seconds = round3(s.Seconds)
	}
	_ = os.MkdirAll(evidenceDir, 0o755)
	b, _ := json.MarshalIndent(ev, "", " ")
	_ = os.WriteFile(filepath.Join(evidenceDir, prop+".json"), b, 0o644)
	for _, l := range lines {
		fmt.Println(l)
	}
	fmt.Printf("%s: %d obligations, %d discharged, %d known findings, %d violations, %.1fs\n", prop, ev.Coverage.Obligations, ev.Coverage.Discharged, len(ev.Coverage.KnownFindings), ev.Violations, ev.WallS)
	os.Exit(exit)
}
