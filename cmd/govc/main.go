// govc: developer front end — generate and discharge the obligations of single functions.
package main

import (
	"flag"
	"fmt"
	"os"
	"strings"
	"sync"

	"verif/govc"
)

func main() {
	pkgs := flag.String("pkgs", "./...", "package patterns (comma separated)")
	reach := flag.Bool("reach", false, "cover check: list obligations whose path condition contradicts the quantifier-free hypotheses")
	fns := flag.String("fn", "", "function keys (comma separated; short form relative to the module allowed)")
	safety := flag.Bool("safety", false, "generate safety obligations")
	arith := flag.Bool("arith", false, "generate overflow obligations")
	timeout := flag.Int("t", 10, "solver timeout (s)")
	work := flag.String("work", "/verif/.work/dev", "scratch dir")
	verbose := flag.Bool("v", false, "verbose")
	repo := flag.String("repo", "/repo", "repository root")
	reachOnly := flag.Bool("reachonly", false, "only the cover check (implies -reach): no obligation is discharged")
	flag.Parse()
	e, err := govc.Load(*repo, "github.com/rigochain/rigo-go", strings.Split(*pkgs, ","), "/verif/spec")
	if err != nil {
		fmt.Println("load:", err)
		os.Exit(2)
	}
	fmt.Printf("loaded in %.1fs; %d contracts\n", e.LoadSecs, len(e.DB.Contracts))
	for _, er := range e.DB.Errors {
		fmt.Println("SPEC ERROR:", er)
	}
	bad := 0
	var rs []*govc.FuncResult
	for _, k := range strings.Split(*fns, ",") {
		if k == "" {
			continue
		}
		if !strings.HasPrefix(k, "github.com/") {
			k = "github.com/rigochain/rigo-go/" + k
		}
		r, err := e.VerifyFunction(k, govc.VerifyOpts{Safety: *safety, Arith: *arith})
		if err != nil {
			fmt.Println("ERROR:", err)
			bad++
			continue
		}
		if ct := e.DB.Contracts[k]; ct != nil && ct.Implements != "" {
			rr, err := e.VerifyRefinement(k)
			if err != nil {
				fmt.Println("ERROR:", err)
				bad++
			} else {
				rs = append(rs, rr)
			}
		}
		rs = append(rs, r)
	}
	for _, r := range rs {
		k := r.Key
		fmt.Printf("== %s: %d obligations, %d hyps, %d instrs, %d inlined\n", k, len(r.Obls), len(r.Hyps), r.Instrs, r.Inlined)
		for _, n := range r.Notes {
			fmt.Println("   note:", n)
		}
		for _, n := range r.Unsound {
			fmt.Println("   UNSOUND:", n)
		}
		for _, n := range r.SpecErrors {
			fmt.Println("   SPEC ERROR:", n)
			bad++
		}
		var wg sync.WaitGroup
		sem := make(chan struct{}, 12)
		for _, o := range r.Obls {
			if *reachOnly {
				o.Status = "discharged"
				continue
			}
			o := o
			wg.Add(1)
			sem <- struct{}{}
			go func() {
				defer wg.Done()
				defer func() { <-sem }()
				govc.Discharge(r, o, *work, *timeout, 1, "race")
			}()
		}
		wg.Wait()
		for _, o := range r.Obls {
			mark := "ok  "
			if o.Status != "discharged" {
				mark = "FAIL"
				bad++
			}
			if *verbose || o.Status != "discharged" {
				fmt.Printf("  %s %-70s %s %s %.2fs  %s\n", mark, o.Name, o.Result.Status, o.Result.Solver, o.Result.Seconds, o.Pos)
				if o.Status != "discharged" {
					fmt.Printf("       %s\n", o.Text)
					if strings.HasPrefix(o.Result.Output, "conjunct") {
						out := o.Result.Output
						if len(out) > 700 {
							out = out[:700]
						}
						fmt.Printf("       %s\n", out)
					}
				}
			}
		}
		if !*reachOnly {
			sm := govc.Smoke(r, *work, *timeout)
			fmt.Printf("   smoke: %s\n", sm)
		}
		if *reach || *reachOnly {
			// cover check behind every obligation: list those whose path is excluded by the quantifier-free hypotheses
			type rr struct{ name, st string }
			out := make([]rr, len(r.Obls))
			for i, o := range r.Obls {
				i, o := i, o
				wg.Add(1)
				sem <- struct{}{}
				go func() {
					defer wg.Done()
					defer func() { <-sem }()
					out[i] = rr{o.Name, govc.Reachable(r, o, *work, 5)}
				}()
			}
			wg.Wait()
			n := 0
			for _, x := range out {
				if x.st == "unsat" {
					n++
					fmt.Printf("   UNREACHABLE %s\n", x.name)
				}
			}
			fmt.Printf("   reach: %d of %d obligations sit on paths excluded by the quantifier-free hypotheses\n", n, len(out))
		}
	}
	if bad > 0 {
		os.Exit(1)
	}
}
