#!/bin/bash
# devmut.sh <file> <python-replace old> <new> <pkgs> <fns>  — apply a textual mutation to /repo, run govc, revert
set -u
f="$1"; old="$2"; new="$3"; pkgs="$4"; fns="$5"
python3 - "$f" "$old" "$new" <<'PY'
import sys
p='/repo/'+sys.argv[1]
s=open(p).read()
assert sys.argv[2] in s, "pattern not found"
open(p,'w').write(s.replace(sys.argv[2],sys.argv[3],1))
PY
( cd /repo && export GOFLAGS=-mod=mod GOPROXY=off GOSUMDB=off GOTOOLCHAIN=local && go build ./... 2>&1 | head -5 )
/verif/bin/govc -pkgs "$pkgs" -fn "$fns" 2>&1 | grep -E "FAIL|ERROR|VACUOUS|^==" | head -20
( cd /repo && git checkout -- . )
