#!/bin/bash
if [ -n "$(git -C /repo status --porcelain)" ]; then echo "refusing: /repo has uncommitted changes"; exit 3; fi
# devmut.sh <file> <old> <new> <prop>  — apply a textual mutation to /repo, run vcheck for the property, revert
f="$1"; old="$2"; new="$3"; prop="$4"
python3 - "$f" "$old" "$new" <<'PY' || exit 2
import sys
p='/repo/'+sys.argv[1]
s=open(p).read()
assert sys.argv[2] in s, "pattern not found"
open(p,'w').write(s.replace(sys.argv[2],sys.argv[3],1))
PY
( cd /repo && export GOFLAGS=-mod=mod GOPROXY=off GOSUMDB=off GOTOOLCHAIN=local && go build ./... 2>&1 | head -5 )
/verif/bin/vcheck -evidence /tmp/verif-scratch-evidence -p "$prop" 2>&1 | grep -E "VIOLATION|KNOWN|^C[0-9]+:" | cut -c1-200 | head -8
( cd /repo && git checkout -q -- . )
